package zzverif

import (
	"bytes"
	"runtime"
	"strconv"
)

// goid parses the current goroutine id from the stack header (replay scheduler only).
func goid() int64 {
	var buf [64]byte
	n := runtime.Stack(buf[:], false)
	b := bytes.TrimPrefix(buf[:n], []byte("goroutine "))
	i := bytes.IndexByte(b, ' ')
	if i < 0 {
		return -1
	}
	id, _ := strconv.ParseInt(string(b[:i]), 10, 64)
	return id
}
