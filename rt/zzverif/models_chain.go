package zzverif

import (
	"net/http"
	"net/http/httputil"
	"time"

	"github.com/gorilla/mux"
)

// ---- gorilla/mux: registrations are recorded; dispatch is exact path match for HandleFunc
// patterns and the "/" prefix as catch-all. Route MATCHING semantics (path cleaning,
// encoded paths, method matchers) are not modelled. ----

type muxRoute struct {
	pattern string
	prefix  bool
	h       http.Handler
}

var muxTables = map[*mux.Router][]*muxRoute{}
var muxPending = map[*mux.Route]*muxRoute{}

func VerifModel_mux_NewRouter() *mux.Router {
	r := &mux.Router{}
	muxTables[r] = nil
	return r
}

func VerifModel_mux_Router_UseEncodedPath(r *mux.Router) *mux.Router { return r }
func VerifModel_mux_Router_StrictSlash(r *mux.Router, v bool) *mux.Router { return r }

func VerifModel_mux_Router_HandleFunc(r *mux.Router, path string, f func(http.ResponseWriter, *http.Request)) *mux.Route {
	muxTables[r] = append(muxTables[r], &muxRoute{pattern: path, h: http.HandlerFunc(f)})
	return &mux.Route{}
}

func VerifModel_mux_Router_Handle(r *mux.Router, path string, h http.Handler) *mux.Route {
	muxTables[r] = append(muxTables[r], &muxRoute{pattern: path, h: h})
	return &mux.Route{}
}

func VerifModel_mux_Router_PathPrefix(r *mux.Router, tpl string) *mux.Route {
	rt := &mux.Route{}
	mr := &muxRoute{pattern: tpl, prefix: true}
	muxTables[r] = append(muxTables[r], mr)
	muxPending[rt] = mr
	return rt
}

func VerifModel_mux_Route_HandlerFunc(rt *mux.Route, f func(http.ResponseWriter, *http.Request)) *mux.Route {
	if mr, ok := muxPending[rt]; ok {
		mr.h = http.HandlerFunc(f)
	}
	return rt
}

func VerifModel_mux_Route_Handler(rt *mux.Route, h http.Handler) *mux.Route {
	if mr, ok := muxPending[rt]; ok {
		mr.h = h
	}
	return rt
}

func VerifModel_mux_Route_Methods(rt *mux.Route, m ...string) *mux.Route { return rt }

func VerifModel_mux_Router_ServeHTTP(r *mux.Router, w http.ResponseWriter, req *http.Request) {
	for _, rt := range muxTables[r] {
		if !rt.prefix && req.URL.Path == rt.pattern {
			rt.h.ServeHTTP(w, req)
			return
		}
	}
	for _, rt := range muxTables[r] {
		if rt.prefix && rt.h != nil {
			rt.h.ServeHTTP(w, req)
			return
		}
	}
	w.WriteHeader(404)
}

// MuxRoutes lists the patterns registered on a router (executor only).
func MuxRoutes(h http.Handler) []string {
	var out []string
	if r, ok := h.(*mux.Router); ok {
		for _, rt := range muxTables[r] {
			out = append(out, rt.pattern)
		}
	}
	return out
}

// ---- httputil.ReverseProxy: the documented data flow only - clone the request, Director,
// transport, ModifyResponse, ADD the upstream's response headers to the client's response,
// status. Hop-by-hop stripping, X-Forwarded-For, streaming, cancellation are not modelled. ----

func VerifModel_httputil_ReverseProxy_ServeHTTP(p *httputil.ReverseProxy, rw http.ResponseWriter, req *http.Request) {
	out := *req
	u := *req.URL
	out.URL = &u
	out.Header = http.Header{}
	for k, vv := range req.Header {
		out.Header[k] = append([]string(nil), vv...)
	}
	p.Director(&out)
	if out.URL == nil {
		rw.WriteHeader(http.StatusBadGateway)
		return
	}
	resp, err := p.Transport.RoundTrip(&out)
	if err != nil {
		if p.ErrorHandler != nil {
			p.ErrorHandler(rw, &out, err)
			return
		}
		rw.WriteHeader(http.StatusBadGateway)
		return
	}
	if p.ModifyResponse != nil {
		if err := p.ModifyResponse(resp); err != nil {
			rw.WriteHeader(http.StatusBadGateway)
			return
		}
	}
	dst := rw.Header()
	for k, vv := range resp.Header {
		for _, v := range vv {
			dst.Add(k, v)
		}
	}
	rw.WriteHeader(resp.StatusCode)
}

// ---- http.TimeoutHandler (net/http server.go): the inner handler writes to a private
// header map and buffer; on completion every key of the private map is ASSIGNED into the
// real header map, then status and body are written; on timeout 503 + message. ----

type TimeoutH struct {
	H   http.Handler
	Msg string
}

func (t *TimeoutH) ServeHTTP(w http.ResponseWriter, r *http.Request) {
	tw := NewRecorder()
	if NondetBool("timeouthandler.fires") {
		Reach("timeout-fired")
		w.WriteHeader(http.StatusServiceUnavailable)
		w.Write([]byte(t.Msg))
		return
	}
	t.H.ServeHTTP(tw, r)
	dst := w.Header()
	for k, vv := range tw.H {
		dst[k] = vv
	}
	if !tw.Wrote {
		tw.Code = http.StatusOK
	}
	w.WriteHeader(tw.Code)
}

func VerifModel_http_TimeoutHandler(h http.Handler, dt time.Duration, msg string) http.Handler {
	return &TimeoutH{H: h, Msg: msg}
}
