package zzverif

import (
	"math/rand"
	"sync"
	"time"
)

// sync.Map (golang.org/x/sync/syncmap.Map is an alias): an association list per map object.
type syncMapModel struct {
	keys []interface{}
	vals []interface{}
}

var syncMaps = map[*sync.Map]*syncMapModel{}

func syncMapOf(m *sync.Map) *syncMapModel {
	mm := syncMaps[m]
	if mm == nil {
		mm = &syncMapModel{}
		syncMaps[m] = mm
	}
	return mm
}

func VerifModel_sync_Map_Load(m *sync.Map, key interface{}) (interface{}, bool) {
	mm := syncMapOf(m)
	for i, k := range mm.keys {
		if k == key {
			return mm.vals[i], true
		}
	}
	return nil, false
}

func VerifModel_sync_Map_Store(m *sync.Map, key, value interface{}) {
	mm := syncMapOf(m)
	for i, k := range mm.keys {
		if k == key {
			mm.vals[i] = value
			return
		}
	}
	mm.keys = append(mm.keys, key)
	mm.vals = append(mm.vals, value)
}

func VerifModel_sync_Map_Delete(m *sync.Map, key interface{}) {
	mm := syncMapOf(m)
	for i, k := range mm.keys {
		if k == key {
			mm.keys = append(mm.keys[:i:i], mm.keys[i+1:]...)
			mm.vals = append(mm.vals[:i:i], mm.vals[i+1:]...)
			return
		}
	}
}

// time.NewTicker: a ticker with a bounded number of ticks already due (TickerTicks); the
// scheduler decides when a loop consumes them.
var TickerTicks = 1

func VerifModel_time_NewTicker(d time.Duration) *time.Ticker {
	c := make(chan time.Time, 4)
	for i := 0; i < TickerTicks; i++ {
		c <- time.Time{}
	}
	return &time.Ticker{C: c}
}

func VerifModel_time_Ticker_Stop(t *time.Ticker) {}

func VerifModel_rand_Float64() float64 { return 0 }

var _ = rand.Float64

// time.NewTimer / time.After: a timer of less than a millisecond is already due (the scheduler
// decides whether a select takes it before any other ready case); a longer one does not fire
// within the handful of steps of a harness schedule. Stop reports "not yet fired".
func VerifModel_time_NewTimer(d time.Duration) *time.Timer {
	return &time.Timer{C: VerifModel_time_After(d)}
}

func VerifModel_time_Timer_Stop(t *time.Timer) bool { return true }

func VerifModel_time_After(d time.Duration) <-chan time.Time {
	c := make(chan time.Time, 1)
	if d < time.Millisecond {
		c <- time.Time{}
	}
	return c
}

// sync.Pool: Get hands back the most recently Put object (what the per-P private slot does on
// one processor) or a fresh one.
type syncPoolModel struct{ items []interface{} }

var syncPools = map[*sync.Pool]*syncPoolModel{}

func VerifModel_sync_Pool_Get(p *sync.Pool) interface{} {
	pm := syncPools[p]
	if pm != nil && len(pm.items) > 0 {
		x := pm.items[len(pm.items)-1]
		pm.items = pm.items[:len(pm.items)-1]
		return x
	}
	if p.New != nil {
		return p.New()
	}
	return nil
}

func VerifModel_sync_Pool_Put(p *sync.Pool, x interface{}) {
	pm := syncPools[p]
	if pm == nil {
		pm = &syncPoolModel{}
		syncPools[p] = pm
	}
	pm.items = append(pm.items, x)
}
