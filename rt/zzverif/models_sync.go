package zzverif

import (
	"math/rand"
	"sync"
	"time"
)

// sync.Map (golang.org/x/sync/syncmap.Map is an alias): an association list per map object.
type syncMapModel struct {
	keys []interface{}
	vals []interface{}
}

var syncMaps = map[*sync.Map]*syncMapModel{}

func syncMapOf(m *sync.Map) *syncMapModel {
	mm := syncMaps[m]
	if mm == nil {
		mm = &syncMapModel{}
		syncMaps[m] = mm
	}
	return mm
}

func VerifModel_sync_Map_Load(m *sync.Map, key interface{}) (interface{}, bool) {
	mm := syncMapOf(m)
	for i, k := range mm.keys {
		if k == key {
			return mm.vals[i], true
		}
	}
	return nil, false
}

func VerifModel_sync_Map_Store(m *sync.Map, key, value interface{}) {
	mm := syncMapOf(m)
	for i, k := range mm.keys {
		if k == key {
			mm.vals[i] = value
			return
		}
	}
	mm.keys = append(mm.keys, key)
	mm.vals = append(mm.vals, value)
}

func VerifModel_sync_Map_Delete(m *sync.Map, key interface{}) {
	mm := syncMapOf(m)
	for i, k := range mm.keys {
		if k == key {
			mm.keys = append(mm.keys[:i:i], mm.keys[i+1:]...)
			mm.vals = append(mm.vals[:i:i], mm.vals[i+1:]...)
			return
		}
	}
}

// time.NewTicker: a ticker with a bounded number of ticks already due (TickerTicks); the
// scheduler decides when a loop consumes them.
var TickerTicks = 1

func VerifModel_time_NewTicker(d time.Duration) *time.Ticker {
	c := make(chan time.Time, 4)
	for i := 0; i < TickerTicks; i++ {
		c <- time.Time{}
	}
	return &time.Ticker{C: c}
}

func VerifModel_time_Ticker_Stop(t *time.Ticker) {}

func VerifModel_rand_Float64() float64 { return 0 }

var _ = rand.Float64
