package zzverif

import (
	"crypto/rand"
	"io"
)

type faultyEntropy struct{ real io.Reader }

func (f faultyEntropy) Read(p []byte) (int, error) {
	if NondetBool("entropy.fails") {
		return 0, errEntropy
	}
	return f.real.Read(p)
}

// FaultyEntropy makes crypto/rand's source fail when the counterexample says so (natively
// rand.Reader is wrapped; under the executor crypto/rand.Read and miscreant.GenerateNonce
// are models that draw the same "entropy.fails" decisions).
func FaultyEntropy() {
	if _, ok := rand.Reader.(faultyEntropy); !ok {
		rand.Reader = faultyEntropy{rand.Reader}
	}
}

func VerifModel_zzverif_FaultyEntropy() {}
