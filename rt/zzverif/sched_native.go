package zzverif

import (
	"fmt"
	"runtime"
	"sync"
	"time"
)

// Scheduler API. Under the executor: Go creates a thread that runs only when RunSchedule
// picks it; RunSchedule repeatedly picks one ENABLED thread (forking over the candidates)
// and runs it to its next yield point - a mutex acquisition, WaitGroup.Wait, a channel
// operation, select, or Yield(). Natively (replay) the threads are goroutines parked at
// their controllable yield points (start and Yield); RunSchedule replays the model's
// choices "$sched#k" by releasing the chosen thread and waiting until it parks again,
// finishes, or visibly blocks (mutex / WaitGroup: detected by a short timeout).

type nthread struct {
	name    string
	release chan struct{}
	parked  chan struct{}
	done    bool
	atPark  bool
}

var (
	nmu      sync.Mutex
	nthreads []*nthread
	ncur     = map[int64]*nthread{}
)

// freeRun: the threads are released together and scheduled by the Go runtime (second
// phase of the replay of a schedule counterexample whose interleaving lies between yield
// points the native scheduler cannot control, e.g. inside sso's own lock acquisitions).
var (
	freeRun   bool
	freeStart chan struct{}
	freeWG    sync.WaitGroup
)

// Go starts a harness thread.
func Go(name string, f func()) {
	if freeRun {
		freeWG.Add(1)
		start := freeStart
		go func() {
			defer freeWG.Done()
			<-start
			f()
		}()
		return
	}
	t := &nthread{name: name, release: make(chan struct{}), parked: make(chan struct{}, 1)}
	nmu.Lock()
	nthreads = append(nthreads, t)
	nmu.Unlock()
	go func() {
		setCur(t)
		t.park()
		f()
		nmu.Lock()
		t.done = true
		nmu.Unlock()
		t.parked <- struct{}{}
	}()
}

func (t *nthread) park() {
	nmu.Lock()
	t.atPark = true
	nmu.Unlock()
	t.parked <- struct{}{}
	<-t.release
	nmu.Lock()
	t.atPark = false
	nmu.Unlock()
}

// Yield is a scheduling point inside harness callbacks.
func Yield() {
	if freeRun {
		runtime.Gosched()
		return
	}
	if t := getCur(); t != nil {
		t.park()
	}
}

// ThreadName labels the calling thread in traces (executor only).
func ThreadName(name string) {}

// RunSchedule runs spawned threads for at most budget scheduling steps and reports
// "done", "deadlock" or "budget".
func RunSchedule(budget int) string {
	load()
	if freeRun {
		close(freeStart)
		fin := make(chan struct{})
		go func() { freeWG.Wait(); close(fin) }()
		select {
		case <-fin:
			return "done"
		case <-time.After(300 * time.Millisecond):
			return "budget" // threads that wait for ticks or for each other never finish
		}
	}
	// the controlled schedule runs one thread at a time; on one processor, so that per-processor
	// runtime state (sync.Pool's private slot) behaves as it does for threads that share a processor
	defer runtime.GOMAXPROCS(runtime.GOMAXPROCS(1))
	// wait until every thread reached its first park
	for _, t := range snapshot() {
		<-t.parked
	}
	for step := 0; step < budget; step++ {
		ts := snapshot()
		all := true
		for _, t := range ts {
			if !t.isDone() {
				all = false
			}
		}
		if all {
			return "done"
		}
		v, ok := draw("$sched")
		if !ok {
			break
		}
		i := int(toInt(v)) - 1 // executor thread ids start at 1
		kind, _ := draw("$schedkind")
		if i < 0 || i >= len(ts) {
			continue
		}
		t := ts[i]
		Trace = append(Trace, fmt.Sprintf("step %d thread %d kind %v parked=%v done=%v", step, i, kind, t.isParked(), t.isDone()))
		if ks, _ := kind.(string); ks == "sync" {
			// the model ran a segment that starts at a mutex / WaitGroup / channel: natively that
			// segment runs by itself as soon as it can
			time.Sleep(2 * time.Millisecond)
			continue
		}
		if t.isDone() || !t.isParked() {
			// the model's step ran an uncontrollable segment (after a mutex / WaitGroup): natively
			// the thread is already past it or still blocked; give it a moment
			time.Sleep(2 * time.Millisecond)
			continue
		}
		t.release <- struct{}{}
		select {
		case <-t.parked:
		case <-time.After(30 * time.Millisecond):
			// blocked on a mutex or WaitGroup: it will move when others do
		}
	}
	// let everything finish
	deadline := time.After(2 * time.Second)
	for {
		ts := snapshot()
		all := true
		for _, t := range ts {
			if !t.isDone() {
				all = false
				if t.isParked() {
					select {
					case t.release <- struct{}{}:
					default:
					}
				}
			}
		}
		if all {
			return "done"
		}
		select {
		case <-deadline:
			return "budget"
		case <-time.After(time.Millisecond):
		}
	}
}

func snapshot() []*nthread {
	nmu.Lock()
	defer nmu.Unlock()
	return append([]*nthread(nil), nthreads...)
}

func (t *nthread) isDone() bool   { nmu.Lock(); defer nmu.Unlock(); return t.done }
func (t *nthread) isParked() bool { nmu.Lock(); defer nmu.Unlock(); return t.atPark }

// goroutine-local current thread, keyed by goroutine id
func setCur(t *nthread) { nmu.Lock(); ncur[goid()] = t; nmu.Unlock() }
func getCur() *nthread  { nmu.Lock(); defer nmu.Unlock(); return ncur[goid()] }

// ResetSchedule forgets threads of an earlier harness run.
func ResetSchedule() {
	nmu.Lock()
	nthreads = nil
	ncur = map[int64]*nthread{}
	nmu.Unlock()
	freeStart = make(chan struct{})
	freeWG = sync.WaitGroup{}
}
