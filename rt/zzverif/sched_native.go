package zzverif

// Native counterparts of the scheduler intrinsics. Under the executor `go f()` creates
// a thread that only runs when RunSchedule picks it; natively the harness's goroutines
// are real, and schedule replays are driven by the harness through Yield hand-offs.

// RunSchedule runs spawned threads for at most budget scheduling steps and reports
// "done", "deadlock" or "budget".
func RunSchedule(budget int) string { return nativeRunSchedule(budget) }

// Yield is a scheduling point inside harness callbacks.
func Yield() { nativeYield() }

// ThreadName labels the calling thread in traces.
func ThreadName(name string) {}

var nativeRunSchedule = func(budget int) string { return "done" }
var nativeYield = func() {}
