package zzverif

import (
	"hash"
)

// ---- crypto/hmac + sha256: an ideal MAC. mac(key, msg) is an uninterpreted function of the
// two strings (functional consistency is all that is assumed here; unforgeability enters
// where a harness states that an adversary cannot produce mac values for unknown keys). ----

type MacState struct {
	Key  string
	Data string
}

func (m *MacState) Write(p []byte) (int, error) { m.Data += string(p); return len(p), nil }
func (m *MacState) Sum(b []byte) []byte         { return []byte(UFString("hmac_sha256", m.Key, m.Data)) }
func (m *MacState) Reset()                      { m.Data = "" }
func (m *MacState) Size() int                   { return 32 }
func (m *MacState) BlockSize() int              { return 64 }

func VerifModel_hmac_New(h func() hash.Hash, key []byte) hash.Hash {
	return &MacState{Key: string(key)}
}

func VerifModel_hmac_Equal(a, b []byte) bool { return string(a) == string(b) }

func VerifModel_sha256_New() hash.Hash { return nil }

// aead.GenerateKey: 32 random bytes -> an arbitrary byte string.
func VerifModel_aead_GenerateKey() []byte { return []byte(NondetString("aead.key")) }
