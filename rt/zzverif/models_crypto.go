package zzverif

import (
	"hash"
)

// ---- crypto/hmac + sha256: an ideal MAC. mac(key, msg) is an uninterpreted function of the
// two strings, INJECTIVE (collision-free); unforgeability enters where a harness states that an
// adversary cannot produce mac values for unknown keys. ----

type MacState struct {
	Key  string
	Data string
}

func (m *MacState) Write(p []byte) (int, error) { m.Data += string(p); return len(p), nil }
func (m *MacState) Sum(b []byte) []byte {
	out := UFStringInj("hmac_sha256", m.Key, m.Data)
	// every MAC output is, by definition, in the image of the MAC under this key; harnesses state
	// unforgeability as "a forged value is not in the image" (MacImage)
	Assume(UFBool("hmac_image", m.Key, out))
	Assume(out != "") // 32 bytes
	return []byte(out)
}

// MacImage: is v an HMAC-SHA256 output under key? (uninterpreted; true for every value the
// model computes)
func MacImage(key, v string) bool { return UFBool("hmac_image", key, v) }
func (m *MacState) Reset()                      { m.Data = "" }
func (m *MacState) Size() int                   { return 32 }
func (m *MacState) BlockSize() int              { return 64 }

func VerifModel_hmac_New(h func() hash.Hash, key []byte) hash.Hash {
	return &MacState{Key: string(key)}
}

func VerifModel_hmac_Equal(a, b []byte) bool { return string(a) == string(b) }

// sha256.New: a collision-free hash as an uninterpreted injective function of the bytes
// written since the last Reset. Every operation is a scheduling point, so that two threads
// sharing one hash state are interleaved by the scheduler (a fresh state per use is what
// makes concurrent use safe - C12).
type ShaState struct{ Data string }

func (m *ShaState) Write(p []byte) (int, error) { Yield(); m.Data += string(p); return len(p), nil }
func (m *ShaState) Sum(b []byte) []byte {
	Yield()
	out := UFStringInj("sha256", m.Data)
	Assume(len(out) == 32)
	return append(b, out...)
}
func (m *ShaState) Reset()         { Yield(); m.Data = "" }
func (m *ShaState) Size() int      { return 32 }
func (m *ShaState) BlockSize() int { return 64 }

func VerifModel_sha256_New() hash.Hash { return &ShaState{} }

// aead.GenerateKey: 32 random bytes -> an arbitrary byte string.
func VerifModel_aead_GenerateKey() []byte {
	k := NondetString("aead.key")
	Assume(k != "")
	return []byte(k)
}
