package zzverif

import "io"

func eof() error { return io.EOF }
