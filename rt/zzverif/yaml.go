package zzverif

import (
	"os"

	yaml "gopkg.in/yaml.v2"
)

// YAMLDoc is the YAML document of v (natively yaml.Marshal; under the executor a token that
// yaml.Unmarshal turns back into a deep copy of v - yaml.v2's text grammar is not encoded).
func YAMLDoc(v interface{}) []byte {
	b, err := yaml.Marshal(v)
	if err != nil {
		panic(err)
	}
	return b
}

var tempFiles []string

// YAMLFile writes YAMLDoc(v) to a file and returns its name.
func YAMLFile(v interface{}) string {
	f, err := os.CreateTemp("", "zzverif-*.yml")
	if err != nil {
		panic(err)
	}
	f.Write(YAMLDoc(v))
	f.Close()
	tempFiles = append(tempFiles, f.Name())
	return f.Name()
}

func removeTempFiles() {
	for _, f := range tempFiles {
		os.Remove(f)
	}
	tempFiles = nil
}
