package zzverif

// Go-source environment models. The symbolic executor calls VerifModel_<pkg>_<Type>_<Func>
// INSTEAD of the named standard-library / third-party function (matched by name); they are
// plain Go executed symbolically like any other code. They are never called natively: a
// native replay runs the real library, which is what validates these models against it.

import (
	"errors"
	"html/template"
	"io"
	"net/http"
	"net/url"
	"strings"
)

// ---- net/http: response helpers ----

// http.Redirect: Location + status (the body and Content-Type of the real function are
// irrelevant to every property; relative-URL resolution is identity for the absolute
// paths and absolute URLs sso passes).
func VerifModel_http_Redirect(w http.ResponseWriter, r *http.Request, u string, code int) {
	w.Header().Set("Location", u)
	w.WriteHeader(code)
}

// http.Error as in net/http (go1.23): deletes Content-Length etc., sets two headers, writes.
func VerifModel_http_Error(w http.ResponseWriter, msg string, code int) {
	h := w.Header()
	h.Del("Content-Length")
	h.Set("Content-Type", "text/plain; charset=utf-8")
	h.Set("X-Content-Type-Options", "nosniff")
	w.WriteHeader(code)
	w.Write([]byte(msg))
}

// http.SetCookie: the cookie is kept as a struct on the Recorder (and a marker header line
// is added so that "some Set-Cookie was emitted" is visible in the header map too).
func VerifModel_http_SetCookie(w http.ResponseWriter, c *http.Cookie) {
	if c.Name == "" {
		return
	}
	if rec, ok := w.(*Recorder); ok {
		cp := *c
		rec.cookies = append(rec.cookies, &cp)
	}
	w.Header().Add("Set-Cookie", c.Name+"="+c.Value)
}

// ---- net/http: request cookies. Model: every element of Header["Cookie"] is a list of
// name=value pairs separated by "; " built by the harness from symbolic values that
// contain none of ';', ' ', '=' ... (assumed by the harness); parsing is by position. ----

func verifCookiePairs(r *http.Request) []*http.Cookie {
	var out []*http.Cookie
	for _, line := range r.Header["Cookie"] {
		for _, part := range cookieSplit(line) {
			out = append(out, part)
		}
	}
	return out
}

// cookieTable is the executor-side registry of cookie header lines built by Cookies():
// a line value maps to the cookies it was built from.
var cookieTable []cookieLine

type cookieLine struct {
	line  string
	pairs []*http.Cookie
}

// CookieLine builds one Cookie header line from cookies and registers its parse.
func CookieLine(cs ...*http.Cookie) string {
	var parts []string
	for _, c := range cs {
		parts = append(parts, c.Name+"="+c.Value)
	}
	line := strings.Join(parts, "; ")
	cookieTable = append(cookieTable, cookieLine{line, cs})
	return line
}

func cookieSplit(line string) []*http.Cookie {
	for _, e := range cookieTable {
		if e.line == line {
			return e.pairs
		}
	}
	// a line the harness did not build through CookieLine: unparseable for the model
	Assume(false)
	return nil
}

func VerifModel_http_Request_Cookies(r *http.Request) []*http.Cookie {
	var out []*http.Cookie
	for _, c := range verifCookiePairs(r) {
		cp := &http.Cookie{Name: c.Name, Value: c.Value}
		out = append(out, cp)
	}
	return out
}

func VerifModel_http_Request_Cookie(r *http.Request, name string) (*http.Cookie, error) {
	for _, c := range verifCookiePairs(r) {
		if c.Name == name {
			return &http.Cookie{Name: c.Name, Value: c.Value}, nil
		}
	}
	return nil, http.ErrNoCookie
}

// (*http.Cookie).String for request cookies (Name and Value only), as used by deleteCookie.
func VerifModel_http_Cookie_String(c *http.Cookie) string {
	return c.Name + "=" + c.Value
}

// ---- net/http client side ----

func VerifModel_http_Client_Do(c *http.Client, req *http.Request) (*http.Response, error) {
	return c.Transport.RoundTrip(req)
}

func VerifModel_http_NewRequest(method, u string, body io.Reader) (*http.Request, error) {
	pu, err := url.Parse(u)
	if err != nil {
		return nil, err
	}
	req := &http.Request{Method: method, URL: pu, Header: http.Header{}, Host: pu.Host}
	if body != nil {
		req.Body = io.NopCloser(body)
	}
	return req, nil
}

func VerifModel_ioutil_ReadAll(r io.Reader) ([]byte, error) {
	if b, ok := r.(*Body); ok {
		if b.ReadErr {
			return nil, errors.New("zzverif: read error")
		}
		return b.Data, nil
	}
	return nil, errors.New("zzverif: ReadAll of an unmodelled reader")
}

func VerifModel_io_ReadAll(r io.Reader) ([]byte, error) { return VerifModel_ioutil_ReadAll(r) }


// ---- net/url ----

// Values.Encode: key=value pairs joined by '&' in sorted key order, WITHOUT escaping
// (the encoded form only travels to scripted peers that do not parse it).
func VerifModel_url_Values_Encode(v url.Values) string {
	var keys []string
	for k := range v {
		keys = append(keys, k)
	}
	for i := 1; i < len(keys); i++ {
		for j := i; j > 0 && keys[j] < keys[j-1]; j-- {
			keys[j], keys[j-1] = keys[j-1], keys[j]
		}
	}
	out := ""
	for _, k := range keys {
		for _, val := range v[k] {
			if out != "" {
				out += "&"
			}
			out += k + "=" + val
		}
	}
	// what was encoded decodes back to the same parameters
	queryRegistry = append(queryRegistry, queryEntry{out, v})
	return out
}

// ---- sort ----

func VerifModel_sort_Strings(a []string) {
	for i := 1; i < len(a); i++ {
		for j := i; j > 0 && a[j] < a[j-1]; j-- {
			a[j], a[j-1] = a[j-1], a[j]
		}
	}
}

// ---- html/template: rendering is not encoded (C20 is not claimed); a page marker is written ----

func VerifModel_template_Template_ExecuteTemplate(t *template.Template, w io.Writer, name string, data interface{}) error {
	w.Write([]byte("<page " + name + ">"))
	return nil
}

// ---- net ----

// net.SplitHostPort on "host" or "host:port" built by the harness: the split is looked up
// in a table the harness registers (HostPort), anything else has no port.
var hostPorts []hostPort

type hostPort struct{ full, host, port string }

// HostPort builds "host:port" and registers its split.
func HostPort(host, port string) string {
	full := host + ":" + port
	hostPorts = append(hostPorts, hostPort{full, host, port})
	return full
}

func VerifModel_net_SplitHostPort(hp string) (string, string, error) {
	for _, e := range hostPorts {
		if e.full == hp {
			return e.host, e.port, nil
		}
	}
	return "", "", errors.New("missing port in address")
}

// ---- request forms. The harness states the decoded query and body parameters with SetForm;
// natively they are encoded into RawQuery / a form body and parsed back by net/http. ----

type formEntry struct {
	query, body url.Values
	bad         bool
}

var formTable = map[*http.Request]*formEntry{}

// SetForm gives the request the decoded query parameters `query` and (if non-nil) the
// url-encoded body parameters `body`; bad makes ParseForm fail (malformed encoding).
func SetForm(r *http.Request, query, body url.Values, bad bool) {
	r.URL.RawQuery = query.Encode()
	if bad {
		r.URL.RawQuery = "%zz"
	}
	if body != nil {
		r.Header.Set("Content-Type", "application/x-www-form-urlencoded")
		r.Body = io.NopCloser(strings.NewReader(body.Encode()))
	} else if r.Body == nil {
		r.Body = http.NoBody // a server-side request always has a body reader (ParseForm rejects a nil one for POST)
	}
}

func VerifModel_zzverif_SetForm(r *http.Request, query, body url.Values, bad bool) {
	formTable[r] = &formEntry{query, body, bad}
	// the raw query is the (registered) encoding of the query parameters, so that code reading
	// req.URL.Query() directly sees the same values as req.Form's query part
	r.URL.RawQuery = VerifModel_zzverif_MakeQuery(query)
}

func VerifModel_http_Request_ParseForm(r *http.Request) error {
	if r.Form != nil {
		return nil
	}
	e := formTable[r]
	r.Form = url.Values{}
	r.PostForm = url.Values{}
	if e == nil {
		return nil
	}
	// net/http: body parameters take precedence (come first), query parameters are appended
	if e.body != nil && (r.Method == "POST" || r.Method == "PUT" || r.Method == "PATCH") {
		for k, vv := range e.body {
			for _, v := range vv {
				r.PostForm.Add(k, v)
				r.Form.Add(k, v)
			}
		}
	}
	for k, vv := range e.query {
		for _, v := range vv {
			r.Form.Add(k, v)
		}
	}
	if e.bad {
		return errors.New("invalid URL escape")
	}
	return nil
}

func VerifModel_http_Request_FormValue(r *http.Request, key string) string {
	if r.Form == nil {
		VerifModel_http_Request_ParseForm(r)
	}
	if vs := r.Form[key]; len(vs) > 0 {
		return vs[0]
	}
	return ""
}

// (*url.URL).Query under the executor: the decoded query parameters stated with SetForm.
func QueryOf(r *http.Request) url.Values { return r.URL.Query() }

func VerifModel_zzverif_QueryOf(r *http.Request) url.Values {
	if e := formTable[r]; e != nil {
		return e.query
	}
	return url.Values{}
}

// (*url.URL).Hostname / Port for symbolic hosts: by the HostPort table (anything else has no port).
func VerifModel_url_URL_Hostname(u *url.URL) string {
	for _, e := range hostPorts {
		if e.full == u.Host {
			return e.host
		}
	}
	return u.Host
}

func VerifModel_url_URL_Port(u *url.URL) string {
	for _, e := range hostPorts {
		if e.full == u.Host {
			return e.port
		}
	}
	return ""
}

// (*http.Request).SetBasicAuth: sets the Authorization header (the encoding is opaque).
func VerifModel_http_Request_SetBasicAuth(r *http.Request, username, password string) {
	r.Header.Set("Authorization", "Basic "+UFString("basicauth", username, password))
}
