package zzverif

import (
	"crypto/cipher"
	"errors"
)

// ---- github.com/miscreant/miscreant.go: the ideal SIV AEAD (C02) ----
//
// Seal is an uninterpreted injective function of (key, nonce, plaintext) whose output is 16
// bytes longer than the plaintext; Open succeeds exactly for (key, nonce, ciphertext)
// triples that Seal produced (ciphertext integrity, INT-CTXT, is ASSUMED - it is AES-SIV's
// job, not sso's) and returns that plaintext. sso's own framing around it - nonce
// generation and placement, the pivot arithmetic, length checks, gzip, base64 - is executed
// from its source.

type sivRecord struct{ key, nonce, ct, pt string }

var sivSealed []sivRecord
var sivNonces []string

var errSIVOpen = errors.New("siv: authentication failed")
var errSIVKey = errors.New("siv: bad key size")

type IdealSIV struct {
	key       string
	nonceSize int
}

func (a *IdealSIV) NonceSize() int { return a.nonceSize }
func (a *IdealSIV) Overhead() int  { return 16 }

func (a *IdealSIV) Seal(dst, nonce, plaintext, data []byte) []byte {
	if len(nonce) != a.nonceSize {
		panic("miscreant.AEAD: incorrect nonce length")
	}
	n, p := string(nonce), string(plaintext)
	ct := UFStringInj("siv_seal", a.key, n, p)
	Assume(len(ct) == len(p)+16)
	sivSealed = append(sivSealed, sivRecord{a.key, n, ct, p})
	return []byte(ct) // sso passes dst == nil
}

func (a *IdealSIV) Open(dst, nonce, ciphertext, data []byte) ([]byte, error) {
	if len(nonce) != a.nonceSize {
		panic("miscreant.AEAD: incorrect nonce length")
	}
	n, c := string(nonce), string(ciphertext)
	for _, r := range sivSealed {
		if And(r.key == a.key, r.nonce == n, r.ct == c) {
			return []byte(r.pt), nil
		}
	}
	return nil, errSIVOpen
}

func VerifModel_miscreant_NewAEAD(alg string, key []byte, nonceSize int) (cipher.AEAD, error) {
	if len(key) != 32 && len(key) != 64 {
		return nil, errSIVKey
	}
	return &IdealSIV{key: string(key), nonceSize: nonceSize}, nil
}

// GenerateNonce: an arbitrary nonce of the AEAD's size that differs from every nonce drawn
// before (128 random bits do not repeat: assumed).
func VerifModel_miscreant_GenerateNonce(c cipher.AEAD) []byte {
	// miscreant panics when the entropy source fails (Encrypt's recover turns that into an
	// error): that branch is assumed away here, the draw keeps the numbering of entropy reads
	Assume(!NondetBool("entropy.fails"))
	n := NondetString("nonce")
	Assume(len(n) == c.NonceSize())
	for _, o := range sivNonces {
		Assume(n != o)
	}
	sivNonces = append(sivNonces, n)
	return []byte(n)
}

// ---- crypto/rand.Read: the entropy source may fail (then nothing is written), otherwise it
// delivers arbitrary bytes that differ from every earlier delivery of the same size.

var errEntropy = errors.New("entropy source failed")
var entropyDraws []string

func VerifModel_rand_Read(b []byte) (int, error) {
	if NondetBool("entropy.fails") {
		return 0, errEntropy
	}
	for i := range b {
		v := NondetInt("entropy.byte")
		Assume(v >= 0)
		Assume(v <= 255)
		b[i] = byte(v)
	}
	s := string(b)
	if len(b) >= 16 {
		for _, o := range entropyDraws {
			if len(o) == len(s) {
				Assume(s != o)
			}
		}
		entropyDraws = append(entropyDraws, s)
	}
	return len(b), nil
}
