package zzverif

import (
	"fmt"
	"sort"
	"strconv"
	"strings"
)

// Translation validation of the executor itself: concrete Go programs whose observations
// must be identical when executed symbolically (from SSA) and natively.



type stShape interface{ Area() int }
type stRect struct{ W, H int }
type stSq struct{ S int }

func (r stRect) Area() int { return r.W * r.H }
func (s *stSq) Area() int  { return s.S * s.S }

type stErr struct{ code int }

func (e *stErr) Error() string { return "code " + strconv.Itoa(e.code) }

func stMayFail(n int) (int, error) {
	if n%2 == 1 {
		return 0, &stErr{n}
	}
	return n / 2, nil
}

func stDeferOrder() (out string) {
	defer func() { out += "c" }()
	defer func() { out += "b" }()
	out = "a"
	return out
}

func stNamedResult() (err error) {
	defer func() {
		if err != nil {
			err = fmt.Errorf("wrapped")
		}
	}()
	return &stErr{7}
}

func stInts(xs []int) string {
	out := ""
	for _, x := range xs {
		out += strconv.Itoa(x) + ","
	}
	return out
}

// VerifSelftestGo exercises the instruction kinds the harnesses rely on.
func VerifSelftestGo() {
	// slices: append aliasing within capacity, copy, re-slicing
	a := make([]int, 2, 4)
	b := append(a, 7)
	c := append(a, 9) // overwrites b[2]
	Observe("append.alias", b[2])
	Observe("append.len", len(c)*10+cap(c))
	d := append(b, 1, 2, 3)
	d[0] = 5
	Observe("append.realloc", a[0])
	e := []int{1, 2, 3, 4, 5}
	n := copy(e, e[2:])
	Observe("copy", fmt.Sprint(n, stInts(e)))
	Observe("reslice", fmt.Sprint(stInts(e[1:3]), len(e[1:3]), cap(e[1:3])))
	// maps: insertion, overwrite, delete, missing key, struct keys
	type key struct{ A, B string }
	m := map[key]int{}
	m[key{"x", "y"}] = 1
	m[key{"x", "y"}]++
	m[key{"x", "z"}] = 5
	delete(m, key{"x", "z"})
	v, ok := m[key{"q", "q"}]
	Observe("map", fmt.Sprint(m[key{"x", "y"}], len(m), v, ok))
	// strings
	s := "Hello, World"
	Observe("strings", strings.ToLower(s)+"|"+strings.TrimLeft("...a.b", ".")+"|"+strings.Join(strings.Split("a,b,,c", ","), "/")+"|"+strconv.Itoa(strings.Index(s, "World")))
	cnt := 0
	for i, r := range "héy" {
		cnt += i + int(r)
	}
	Observe("range.string", cnt)
	Observe("string.index", int(s[4])+len(s[7:]))
	Observe("hasaffix", fmt.Sprint(strings.HasPrefix(s, "Hell"), strings.HasSuffix(s, "d"), strings.Contains(s, ", W"), strings.TrimPrefix(s, "Hello"), strings.TrimSuffix(s, "x")))
	// integers: wrap-around and conversions
	var u8 uint8 = 250
	u8 += 10
	var i8 int8 = 127
	i8++
	var i64 int64 = 1 << 62
	i64 *= 4
	big := int64(1)<<33 + 5
	seventy := 70000
	minus7 := -7
	Observe("wrap", fmt.Sprint(u8, i8, i64, int32(big), uint16(seventy), minus7/2, minus7%2, seventy>>1, 1<<10|3, 0xff&^0x0f))
	// interfaces, type switches, method values
	shapes := []stShape{stRect{2, 3}, &stSq{4}}
	total := 0
	kinds := ""
	for _, sh := range shapes {
		total += sh.Area()
		switch x := sh.(type) {
		case stRect:
			kinds += "rect" + strconv.Itoa(x.W)
		case *stSq:
			kinds += "sq" + strconv.Itoa(x.S)
		}
	}
	f := shapes[1].Area
	Observe("iface", fmt.Sprint(total, kinds, f()))
	// errors, comparison with nil, type assertion with comma-ok
	_, err := stMayFail(3)
	se, isSE := err.(*stErr)
	_, err2 := stMayFail(4)
	Observe("errors", fmt.Sprint(err != nil, isSE, se.code, err.Error(), err2 == nil))
	Observe("defer", stDeferOrder())
	Observe("named.result", stNamedResult().Error())
	// closures capturing by reference
	counter := 0
	inc := func() int { counter++; return counter }
	inc()
	inc()
	fs := []func() int{}
	for i := 0; i < 3; i++ {
		i := i
		fs = append(fs, func() int { return i * i })
	}
	Observe("closures", fmt.Sprint(counter, fs[0]()+fs[1]()+fs[2]()))
	// struct copy semantics and pointers
	r1 := stRect{1, 2}
	r2 := r1
	r2.W = 9
	pr := &r1
	pr.H = 8
	arr := [3]int{1, 2, 3}
	arr2 := arr
	arr2[0] = 100
	Observe("copy.semantics", fmt.Sprint(r1.W, r1.H, r2.W, r2.H, arr[0], arr2[0]))
	// sort and switch/fallthrough/labels
	words := []string{"pear", "apple", "fig"}
	sort.Strings(words)
	lbl := 0
outer:
	for i := 0; i < 3; i++ {
		for j := 0; j < 3; j++ {
			if j == 2 {
				continue outer
			}
			if i == 2 {
				break outer
			}
			lbl += i*3 + j
		}
	}
	sw := ""
	switch lbl {
	case 4:
		sw = "four"
		fallthrough
	case 5:
		sw += "five"
	default:
		sw = "other"
	}
	Observe("control", fmt.Sprint(strings.Join(words, ","), lbl, sw))
}
