// Package zzverif is the harness runtime of the /verif solver-based checks.
//
// It is overlaid into the repository as github.com/buzzfeed/sso/internal/zzverif
// (never written to /repo). Every function here has two meanings:
//
//   - under the symbolic executor (/verif/engine) calls are intercepted BY NAME and
//     the Go bodies below are never executed: Nondet* draw solver variables, Assume
//     strengthens the path condition, Assert becomes a solver query, Choose forks;
//   - in a native build (the replay of a counterexample) the bodies below run: the
//     Nondet* functions return the values of the solver's model (read from the JSON
//     file named by $VERIF_CEX), Assert records a failed assertion.
//
// A draw is identified by its label and its occurrence number on the path
// ("label#k"), which is how a model found symbolically is fed back natively.
package zzverif

import (
	"sync"
	"strconv"
	"sort"
	"encoding/json"
	"fmt"
	"os"
	"reflect"
	"regexp"
	"runtime"
	"strings"
	"time"
)

// ---- model loading (native mode only) ----

type cexFile struct {
	Property string                 `json:"property"`
	Harness  string                 `json:"harness"`
	Label    string                 `json:"label"`
	Values   map[string]interface{} `json:"values"`
	UF       []ufApp                `json:"uf"`
	Bounds   map[string]int         `json:"bounds"`
}

type ufApp struct {
	Name   string        `json:"name"`
	Args   []interface{} `json:"args"`
	Result interface{}   `json:"result"`
}

var (
	cex      cexFile
	loaded   bool
	occ      = map[string]int{}
	Failed   []string // labels of assertions that failed natively
	Reached  []string
	Missing  []string // draws the native run asked for that the model does not have
	Trace    []string
	baseNow  time.Time
	modelNow int64
	haveNow  bool
)

// Reset prepares a native replay run.
func Reset() {
	rtMu.Lock()
	defer rtMu.Unlock()
	ResetSchedule()
	occ = map[string]int{}
	Failed, Reached, Missing, Trace = nil, nil, nil, nil
	loaded = false
	haveNow = false
}

// rtMu guards the replay state (counterexample values, occurrence counters): goroutines that the
// code under test starts itself, or that outlive one replay attempt, may still draw values.
var rtMu sync.Mutex

func load() {
	rtMu.Lock()
	defer rtMu.Unlock()
	loadLocked()
}

func loadLocked() {
	if loaded {
		return
	}
	loaded = true
	cex = cexFile{Values: map[string]interface{}{}}
	p := os.Getenv("VERIF_CEX")
	if p == "" {
		return
	}
	b, err := os.ReadFile(p)
	if err != nil {
		panic("zzverif: cannot read $VERIF_CEX: " + err.Error())
	}
	if err := json.Unmarshal(b, &cex); err != nil {
		panic("zzverif: bad cex file: " + err.Error())
	}
	baseNow = time.Now()
	if v, ok := cex.Values["$now0"]; ok {
		modelNow = toInt(v)
		haveNow = true
	}
}

// CexHarness returns the harness name recorded in the counterexample file.
func CexHarness() string { load(); return cex.Harness }

// CexLabel returns the label of the assertion the solver violated.
func CexLabel() string { load(); return cex.Label }

func key(label string) string {
	k := fmt.Sprintf("%s#%d", label, occ[label])
	occ[label]++
	return k
}

func draw(label string) (interface{}, bool) {
	rtMu.Lock()
	defer rtMu.Unlock()
	loadLocked()
	k := key(label)
	v, ok := cex.Values[k]
	if !ok {
		Missing = append(Missing, k)
	}
	return v, ok
}

func toInt(v interface{}) int64 {
	switch x := v.(type) {
	case float64:
		return int64(x)
	case string:
		var n int64
		fmt.Sscan(x, &n)
		return n
	case bool:
		if x {
			return 1
		}
	}
	return 0
}

// ---- nondeterministic draws ----

func NondetInt(label string) int {
	v, _ := draw(label)
	return int(toInt(v))
}

func NondetInt64(label string) int64 {
	v, _ := draw(label)
	return toInt(v)
}

func NondetBool(label string) bool {
	v, _ := draw(label)
	b, _ := v.(bool)
	return b
}

// NondetString draws an opaque string (only equality, concatenation, length and
// affix tests can be decided about it).
func NondetString(label string) string {
	v, _ := draw(label)
	s, _ := v.(string)
	return s
}

// NondetChars draws a string of symbolic length 0..maxLen whose bytes are
// individually symbolic (the executor forks over the length).
func NondetChars(label string, maxLen int) string {
	v, _ := draw(label)
	s, _ := v.(string)
	return s
}

// NondetTime draws an arbitrary instant. Natively it is rebased on the real clock:
// real now + (model instant - model now0); the zero Time stays the zero Time.
func NondetTime(label string) time.Time {
	v, ok := draw(label)
	if !ok {
		return time.Time{}
	}
	if s, isS := v.(string); isS && s == "zero" {
		return time.Time{}
	}
	n := toInt(v)
	if haveNow {
		return baseNow.Add(time.Duration(n - modelNow))
	}
	return time.Unix(0, n)
}

func NondetDuration(label string) time.Duration {
	v, _ := draw(label)
	return time.Duration(toInt(v))
}

// Choose forks the executor n ways and returns the branch number 0..n-1.
func Choose(label string, n int) int {
	v, _ := draw(label)
	r := int(toInt(v))
	if r < 0 || r >= n {
		return 0
	}
	return r
}

// Havoc fills *ptr (a pointer to a struct, basic value, or slice) with arbitrary
// values; the draws are labelled label.Field... in declaration order.
func Havoc(label string, ptr interface{}) {
	load()
	havocValue(label, reflect.ValueOf(ptr).Elem())
}

// HavocSliceLen is the length bound used for slices inside Havoc (the executor forks 0..n).
var HavocSliceLen = 2

func havocValue(label string, v reflect.Value) {
	switch v.Kind() {
	case reflect.Bool:
		v.SetBool(NondetBool(label))
	case reflect.Int, reflect.Int8, reflect.Int16, reflect.Int32, reflect.Int64:
		if v.Type() == reflect.TypeOf(time.Duration(0)) {
			v.SetInt(int64(NondetDuration(label)))
		} else {
			v.SetInt(NondetInt64(label))
		}
	case reflect.Uint, reflect.Uint8, reflect.Uint16, reflect.Uint32, reflect.Uint64:
		v.SetUint(uint64(NondetInt64(label)))
	case reflect.String:
		v.SetString(NondetString(label))
	case reflect.Struct:
		if v.Type() == reflect.TypeOf(time.Time{}) {
			v.Set(reflect.ValueOf(NondetTime(label)))
			return
		}
		for i := 0; i < v.NumField(); i++ {
			if !v.Field(i).CanSet() {
				continue
			}
			havocValue(label+"."+v.Type().Field(i).Name, v.Field(i))
		}
	case reflect.Slice:
		n := Choose(label+".len", HavocSliceLen+1)
		s := reflect.MakeSlice(v.Type(), n, n)
		for i := 0; i < n; i++ {
			havocValue(fmt.Sprintf("%s[%d]", label, i), s.Index(i))
		}
		v.Set(s)
	default:
		// pointers, maps, interfaces, funcs: left as they are
	}
}

// ---- assumptions, assertions, witnesses ----

// Assume restricts the inputs. Natively a false assumption means the model does not
// drive the real code the way the encoding predicted: the replay is abandoned.
func Assume(cond bool) {
	if !cond {
		panic(AssumeFailed{})
	}
}

// AssumeFailed is the panic value of a natively false assumption.
type AssumeFailed struct{}

// Assert states an obligation: cond must hold for every input on every path.
func Assert(cond bool, label string) {
	if !cond {
		Failed = append(Failed, label)
	}
}

// Reach is a vacuity witness: the executor reports which labels were reachable.
func Reach(label string) { Reached = append(Reached, label) }

// And, Or, Implies, Not, Ite build boolean terms WITHOUT branching (Go's && and || are
// control flow: under the executor each would fork the path).
func And(bs ...bool) bool {
	for _, b := range bs {
		if !b {
			return false
		}
	}
	return true
}

func Or(bs ...bool) bool {
	for _, b := range bs {
		if b {
			return true
		}
	}
	return false
}

func Implies(a, b bool) bool { return !a || b }
func Not(a bool) bool        { return !a }
func Ite(c, a, b bool) bool {
	if c {
		return a
	}
	return b
}

// ClockMaxAdvance bounds how far the symbolic clock may advance after its first reading
// during this harness run (a request is handled in bounded time). Natively a no-op.
func ClockMaxAdvance(d time.Duration) {}

// LowerByte is ASCII lower-casing of one byte, without branching.
func LowerByte(c byte) byte {
	if c >= 'A' && c <= 'Z' {
		return c + 32
	}
	return c
}

// ReachIf is Reach under a condition, without forking: the label counts as reached if
// the condition is satisfiable on some path.
func ReachIf(cond bool, label string) {
	if cond {
		Reached = append(Reached, label)
	}
}

// Log adds a line to the path trace shown with counterexamples.
func Log(msg string) { Trace = append(Trace, msg) }

// Bound names a size bound of the harness (loop unrollings, list lengths). The check's
// specification (/verif/props/<id>.json) may override the default per tier; the value
// used is recorded in every counterexample so that the replay uses the same bound.
func Bound(name string, def int) int {
	load()
	if v, ok := cex.Bounds[name]; ok {
		return v
	}
	return def
}

// NoPanic declares that a Go panic on any path of this harness is a violation
// (reported under the label "panic").
func NoPanic() {}

// NoModel switches the named Go-source environment models off for this run, so that the
// real code they stand for is executed (C02 executes the real AEAD framing that the other
// harnesses replace by the ideal cipher). Natively a no-op: models are never used natively.
func NoModel(names ...string) {}

// ---- uninterpreted functions ----

// UFBool applies the uninterpreted predicate name to the arguments (ints and strings).
// Equal arguments give equal results on every path.
func UFBool(name string, args ...interface{}) bool {
	v, _ := draw("uf:" + name)
	b, _ := v.(bool)
	return b
}

// UFInt is UFBool for an integer-valued function.
func UFInt(name string, args ...interface{}) int {
	v, _ := draw("uf:" + name)
	return int(toInt(v))
}

// UFString is UFBool for a string-valued function.
func UFString(name string, args ...interface{}) string {
	v, _ := draw("uf:" + name)
	s, _ := v.(string)
	return s
}

// UFStringInj is UFString for an INJECTIVE function (an ideal MAC / hash: equal outputs only for equal inputs).
func UFStringInj(name string, args ...interface{}) string {
	v, _ := draw("uf:" + name)
	s, _ := v.(string)
	return s
}

// Regex returns a compiled pattern standing for "some regular expression": under the
// executor MatchString on it is the uninterpreted predicate match(id, s). Natively it
// is rebuilt from the model: it matches exactly the strings the model says it matches.
func Regex(id string) *regexp.Regexp {
	load()
	var alts []string
	for _, a := range cex.UF {
		if a.Name == "regex.match" && len(a.Args) == 2 && fmt.Sprint(a.Args[0]) == id {
			if b, _ := a.Result.(bool); b {
				alts = append(alts, regexp.QuoteMeta(fmt.Sprint(a.Args[1])))
			}
		}
	}
	if len(alts) == 0 {
		return regexp.MustCompile(`[^\s\S]`)
	}
	return regexp.MustCompile("^(?:" + strings.Join(alts, "|") + ")$")
}

// ---- JSON bodies ----

// JSONBody is json.Marshal(v) for fake peers: under the executor the result is a
// structured blob that json.Unmarshal copies from field by field (matching JSON
// names); if malformed is true the blob does not decode.
func JSONBody(v interface{}, malformed bool) []byte {
	if malformed {
		return []byte("{not json")
	}
	b, err := json.Marshal(v)
	if err != nil {
		panic(err)
	}
	return b
}

// B64SpareBitsVariant returns the unpadded base64url text v with the unused low bits of its
// last character changed - another spelling of the same bytes, which only a Strict decoder
// refuses - or "" when v has no spare bits (its length is a multiple of 4). Under the
// executor: some other text of the same length that the default decoder decodes like v.
func B64SpareBitsVariant(v string) string {
	const alphabet = "ABCDEFGHIJKLMNOPQRSTUVWXYZabcdefghijklmnopqrstuvwxyz0123456789-_"
	if len(v)%4 == 0 || len(v) == 0 {
		return ""
	}
	i := strings.IndexByte(alphabet, v[len(v)-1])
	if i < 0 {
		return ""
	}
	return v[:len(v)-1] + string(alphabet[i^1])
}

// JSONBodyMistyped is the JSON of v with one member given a value of the wrong type (the
// first number becomes a string, or else the first string a number): a well-formed document
// that encoding/json decodes member by member and then reports as an error.
func JSONBodyMistyped(v interface{}) []byte {
	b, err := json.Marshal(v)
	if err != nil {
		panic(err)
	}
	var m map[string]interface{}
	if json.Unmarshal(b, &m) != nil || len(m) == 0 {
		return []byte(`{"mistyped":`)
	}
	keys := make([]string, 0, len(m))
	for k := range m {
		keys = append(keys, k)
	}
	sort.Strings(keys)
	done := false
	for _, k := range keys {
		if f, ok := m[k].(float64); ok {
			m[k] = strconv.FormatFloat(f, 'f', -1, 64)
			done = true
			break
		}
	}
	if !done {
		for _, k := range keys {
			if _, ok := m[k].(string); ok {
				m[k] = 12345
				done = true
				break
			}
		}
	}
	if !done {
		return []byte(`{"mistyped":`)
	}
	out, _ := json.Marshal(m)
	return out
}

// Observe records a value for translation validation (selftest): the native run and
// the symbolic run of the same concrete program must observe the same values.
func Observe(label string, v interface{}) {
	Trace = append(Trace, fmt.Sprintf("%s=%v", label, v))
}

// Replay runs the harness named in the counterexample file natively and reports
// whether the violated assertion fails against the real code.
func Replay(harnesses map[string]func()) (status, detail string) {
	Reset()
	load()
	defer removeTempFiles()
	h, ok := harnesses[cex.Harness]
	if !ok {
		return "error", "no harness " + cex.Harness
	}
	var panicked interface{}
	func() {
		defer func() {
			panicked = recover()
			if panicked != nil {
				panicStack = shortStack()
			}
		}()
		h()
	}()
	if cex.Label == "$observe" {
		if panicked != nil {
			return "error", fmt.Sprintf("native run panicked: %v %s", panicked, panicStack)
		}
		b, _ := json.Marshal(Trace)
		return "observed", string(b)
	}
	// the violated assertion may already have failed before a later draw (absent from the model,
	// which ends at the assertion) made an assumption false or the harness panic
	for _, f := range Failed {
		if f == cex.Label {
			return "reproduced", fmt.Sprintf("assertion %q fails natively; missing draws: %v", f, Missing)
		}
	}
	if _, isAssume := panicked.(AssumeFailed); isAssume {
		return "not-reproduced", "an assumption of the harness is false under the model natively (model mismatch)"
	}
	if panicked != nil {
		if cex.Label == "panic" {
			return "reproduced", fmt.Sprintf("native run panicked: %v", panicked)
		}
		return "not-reproduced", fmt.Sprintf("native run panicked (%v) but the violated assertion is %q; stack: %s", panicked, cex.Label, panicStack)
	}
	for _, f := range Failed {
		if f == cex.Label {
			return "reproduced", fmt.Sprintf("assertion %q fails natively; missing draws: %v", f, Missing)
		}
	}
	// a schedule counterexample whose interleaving the cooperative scheduler could not enforce:
	// run the same harness with the model's values under the Go runtime's own scheduling
	if _, sched := cex.Values["$sched#0"]; sched && !freeRun {
		firstDetail := fmt.Sprintf("controlled schedule: failed natively %v, reached %v", Failed, Reached)
		t0 := time.Now()
		ranFree := 0
		for iter := 1; iter <= 5000 && time.Since(t0) < 8*time.Second; iter++ {
			ranFree = iter
			Reset()
			load()
			freeRun = true
			failedHere := false
			func() {
				defer func() { recover() }()
				h()
			}()
			freeRun = false
			for _, f := range Failed {
				if f == cex.Label {
					failedHere = true
				}
			}
			if failedHere {
				return "reproduced", fmt.Sprintf("assertion %q fails natively under the Go scheduler (free-running threads, iteration %d); %s", cex.Label, iter, firstDetail)
			}
		}
		return "not-reproduced", fmt.Sprintf("assertion %q holds natively in the controlled schedule and in %d free-running runs (%s)", cex.Label, ranFree, firstDetail)
	}
	return "not-reproduced", fmt.Sprintf("assertion %q holds natively (failed natively: %v, missing draws: %v, reached: %v, trace: %v)", cex.Label, Failed, Missing, Reached, Trace)
}

// RunSchedule, Yield, ThreadName: see sched_native.go

var panicStack string

func shortStack() string {
	buf := make([]byte, 1<<14)
	n := runtime.Stack(buf, false)
	lines := strings.Split(string(buf[:n]), "\n")
	var out []string
	for _, l := range lines {
		l = strings.TrimSpace(l)
		if strings.HasPrefix(l, "/") && !strings.Contains(l, "/zzverif/") && !strings.Contains(l, "runtime/") {
			out = append(out, l)
		}
		if len(out) >= 6 {
			break
		}
	}
	return strings.Join(out, " <- ")
}
