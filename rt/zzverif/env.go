package zzverif

import (
	"encoding/json"
	"errors"
	"net/http"
	"net/url"
	"sort"
	"strings"
)

// ---- ResponseWriter ----

// Recorder is the http.ResponseWriter handed to the code under test (plain Go, executed
// like any other code by the symbolic executor; natively the same object).
type Recorder struct {
	H       http.Header
	Code    int // first status written (0 = none yet)
	Writes  int
	Wrote   bool
	Bodies  []string // page markers written by template/body models
	Body    []byte   // the last chunk written
	cookies []*http.Cookie // ghost list kept by the http.SetCookie model (executor only)
}

func NewRecorder() *Recorder { return &Recorder{H: http.Header{}} }

func (r *Recorder) Header() http.Header { return r.H }

func (r *Recorder) WriteHeader(code int) {
	if !r.Wrote {
		r.Wrote = true
		r.Code = code
	}
}

func (r *Recorder) Write(b []byte) (int, error) {
	if !r.Wrote {
		r.Wrote = true
		r.Code = 200
	}
	r.Writes++
	r.Body = b
	return len(b), nil
}

// Status is the status code a client sees (200 if the handler wrote nothing).
func (r *Recorder) Status() int {
	if r.Code == 0 {
		return 200
	}
	return r.Code
}

// SetCookies returns the cookies set on the response, in order. Natively they are parsed
// back from the Set-Cookie headers; under the executor the http.SetCookie model keeps
// them as structs (VerifModel_zzverif_Recorder_SetCookies).
func (r *Recorder) SetCookies() []*http.Cookie {
	resp := http.Response{Header: r.H}
	return resp.Cookies()
}

func VerifModel_zzverif_Recorder_SetCookies(r *Recorder) []*http.Cookie { return r.cookies }

// ---- ideal AEAD at the Marshal/Unmarshal level ----

// Cipher is the coarse ideal-AEAD model of aead.Cipher: Unmarshal(s) succeeds iff s is
// one of the strings this cipher produced (Marshal or Preload), and then yields the value
// sealed; every Marshal yields a fresh string different from all earlier ones.
type Cipher struct {
	Name        string
	recs        []sealedRec
	FailMarshal bool // if set, Marshal may fail (nondeterministically)
	Marshals    int
	Opened      int // index+1 of the record opened by the last successful Unmarshal
	seq         int
}

func itoa(n int) string {
	if n == 0 {
		return "0"
	}
	s := ""
	for n > 0 {
		s = string(rune('0'+n%10)) + s
		n /= 10
	}
	return s
}

type sealedRec struct {
	s string
	b []byte
}

var ErrCipher = errors.New("zzverif: value was not sealed under this key")

func (c *Cipher) seal(label string, v interface{}) (string, error) {
	b, err := json.Marshal(v)
	if err != nil {
		return "", err
	}
	// the sealed form is a fresh value distinct from every other sealed value: a literal
	// token (its spelling is irrelevant to every property; what matters is which strings
	// are equal to it, and an adversary's string is a separate symbolic value that may or
	// may not equal it)
	c.seq++
	s := "sealed." + c.Name + "." + label + "." + itoa(c.seq)
	c.recs = append(c.recs, sealedRec{s, b})
	return s, nil
}

// Marshal implements aead.Cipher.
func (c *Cipher) Marshal(v interface{}) (string, error) {
	if c.FailMarshal && NondetBool(c.Name+".marshal.fails") {
		return "", ErrCipher
	}
	c.Marshals++
	return c.seal(c.Name+".sealed", v)
}

// Preload seals v as part of the arbitrary history before the harness step.
func (c *Cipher) Preload(label string, v interface{}) string {
	s, err := c.seal(c.Name+"."+label, v)
	if err != nil {
		panic(err)
	}
	return s
}

// Unmarshal implements aead.Cipher.
func (c *Cipher) Unmarshal(s string, v interface{}) error {
	c.Opened = 0
	for i, r := range c.recs {
		if s == r.s {
			c.Opened = i + 1
			return json.Unmarshal(r.b, v)
		}
	}
	return ErrCipher
}

func (c *Cipher) Encrypt(b []byte) ([]byte, error) { return nil, ErrCipher }
func (c *Cipher) Decrypt(b []byte) ([]byte, error) { return nil, ErrCipher }

// Knows reports whether s was sealed by this cipher.
func (c *Cipher) Knows(s string) bool {
	for _, r := range c.recs {
		if s == r.s {
			return true
		}
	}
	return false
}

// ---- HTTP bodies and scripted peers ----

// Body is the body of a scripted HTTP response.
type Body struct {
	Data    []byte
	ReadErr bool
	off     int
	Closed  bool
}

func (b *Body) Read(p []byte) (int, error) {
	if b.ReadErr {
		return 0, errors.New("zzverif: read error")
	}
	if b.off >= len(b.Data) {
		return 0, errEOF
	}
	n := copy(p, b.Data[b.off:])
	b.off += n
	return n, nil
}

func (b *Body) Close() error { b.Closed = true; return nil }

var errEOF = eof()

// RoundTripFunc adapts a function to http.RoundTripper.
type RoundTripFunc func(*http.Request) (*http.Response, error)

func (f RoundTripFunc) RoundTrip(r *http.Request) (*http.Response, error) { return f(r) }

// Response builds a scripted response.
func Response(status int, body []byte) *http.Response {
	return &http.Response{StatusCode: status, Body: &Body{Data: body}, Header: http.Header{}}
}

// ---- requests ----

// CookieHeader renders name=value pairs the way a browser sends them (one header line).
func CookieHeader(pairs ...string) string {
	var parts []string
	for i := 0; i+1 < len(pairs); i += 2 {
		parts = append(parts, pairs[i]+"="+pairs[i+1])
	}
	return strings.Join(parts, "; ")
}

// NewRequest builds a server-side request value.
func NewRequest(method, host, path, rawQuery string) *http.Request {
	return &http.Request{Method: method, Host: host, URL: &url.URL{Path: path, RawQuery: rawQuery}, Header: http.Header{}, RequestURI: path}
}

// SortedKeys returns the keys of a header map in sorted order.
func SortedKeys(h http.Header) []string {
	var ks []string
	for k := range h {
		ks = append(ks, k)
	}
	sort.Strings(ks)
	return ks
}
