package zzverif

import (
	"errors"
	"net/url"
)

// net/url for SYMBOLIC strings. The URL grammar is not encoded. Instead:
//   - strings built from components by MakeURL / URL.String are registered, and parsing
//     such a string returns exactly those components (Parse(String(u)) = u);
//   - any other string parses (or fails to parse) into components that are UNINTERPRETED
//     functions of the string: the same string always yields the same components, which
//     is what "the string that was validated is the string that is used" needs.
// Natively the real parser runs; harnesses build adversarial URLs from components whose
// characters need no escaping so that both agree.

type urlEntry struct {
	s string
	u url.URL
}

var urlRegistry []urlEntry

// MakeURL renders scheme://host/path?query and registers its parse.
func MakeURL(scheme, host, path, rawQuery string) string {
	u := url.URL{Scheme: scheme, Host: host, Path: path, RawQuery: rawQuery}
	return u.String()
}

func VerifModel_zzverif_MakeURL(scheme, host, path, rawQuery string) string {
	u := url.URL{Scheme: scheme, Host: host, Path: path, RawQuery: rawQuery}
	return VerifModel_url_URL_String(&u)
}

func VerifModel_url_URL_String(u *url.URL) string {
	s := ""
	if u.Scheme != "" {
		s = u.Scheme + ":"
	}
	if u.Scheme != "" || u.Host != "" {
		if u.Host != "" || u.Path != "" {
			s += "//" + u.Host
		}
	}
	s += u.Path
	if u.RawQuery != "" {
		s += "?" + u.RawQuery
	}
	if u.Fragment != "" {
		s += "#" + u.Fragment
	}
	urlRegistry = append(urlRegistry, urlEntry{s, *u})
	return s
}

func VerifModel_url_Parse(s string) (*url.URL, error) {
	for i := len(urlRegistry) - 1; i >= 0; i-- {
		if urlRegistry[i].s == s {
			u := urlRegistry[i].u
			return &u, nil
		}
	}
	if s == "" {
		return &url.URL{}, nil
	}
	if !UFBool("url.parses", s) {
		return nil, errors.New("parse error")
	}
	return &url.URL{Scheme: UFString("url.scheme", s), Host: UFString("url.host", s), Path: UFString("url.path", s), RawQuery: UFString("url.query", s)}, nil
}

// ---- query strings ----

type queryEntry struct {
	s string
	v url.Values
}

var queryRegistry []queryEntry

// MakeQuery encodes parameters and registers the decoding.
func MakeQuery(v url.Values) string { return v.Encode() }

func VerifModel_zzverif_MakeQuery(v url.Values) string {
	s := VerifModel_url_Values_Encode(v)
	queryRegistry = append(queryRegistry, queryEntry{s, v})
	return s
}

func VerifModel_url_ParseQuery(s string) (url.Values, error) {
	for i := len(queryRegistry) - 1; i >= 0; i-- {
		if queryRegistry[i].s == s {
			out := url.Values{}
			for k, vv := range queryRegistry[i].v {
				out[k] = append([]string(nil), vv...)
			}
			return out, nil
		}
	}
	if s == "" {
		return url.Values{}, nil
	}
	// an unregistered query string: parameters are uninterpreted functions of (string, key) for
	// the keys sso reads
	out := url.Values{}
	for _, k := range []string{"redirect_uri", "sig", "ts", "state", "client_id", "code", "scope", "response_type"} {
		if UFBool("query.has."+k, s) {
			out[k] = []string{UFString("query.get."+k, s)}
		}
	}
	if !UFBool("query.parses", s) {
		return out, errors.New("invalid query")
	}
	return out, nil
}

// ResolveReference for a reference that is a relative or absolute PATH (+ query) on the same
// authority - the only use in sso (SignInPage): the authority comes from the base, the path is
// resolved by the real algorithm on the (literal) paths, query and fragment come from the reference.
func VerifModel_url_URL_ResolveReference(u *url.URL, ref *url.URL) *url.URL {
	if ref.Scheme != "" || ref.Host != "" {
		r := *ref
		return &r
	}
	base := &url.URL{Path: u.Path}
	p := base.ResolveReference(&url.URL{Path: ref.Path})
	r := *u
	r.Path = p.Path
	r.RawQuery = ref.RawQuery
	r.Fragment = ref.Fragment
	return &r
}

// QueryOfURL is u.Query() (registered decoding under the executor).
func QueryOfURL(u *url.URL) url.Values { return u.Query() }
