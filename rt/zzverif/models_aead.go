package zzverif

import (
	"github.com/buzzfeed/sso/internal/pkg/aead"
)

// aead.NewMiscreantCipher under the executor: the ideal-AEAD cipher, one per distinct
// secret (two stores configured with the same secret open each other's values, different
// secrets do not). The real framing around miscreant is C02's subject.

var cipherOf = map[*aead.MiscreantCipher]*Cipher{}

type secretCipher struct {
	secret string
	c      *Cipher
}

var cipherBySecret []secretCipher

func VerifModel_aead_NewMiscreantCipher(secret []byte) (*aead.MiscreantCipher, error) {
	mc := &aead.MiscreantCipher{}
	key := string(secret)
	for _, e := range cipherBySecret {
		if e.secret == key {
			cipherOf[mc] = e.c
			return mc, nil
		}
	}
	c := &Cipher{Name: "key" + itoa(len(cipherBySecret))}
	cipherBySecret = append(cipherBySecret, secretCipher{key, c})
	cipherOf[mc] = c
	return mc, nil
}

func VerifModel_aead_MiscreantCipher_Marshal(mc *aead.MiscreantCipher, v interface{}) (string, error) {
	return cipherOf[mc].Marshal(v)
}

func VerifModel_aead_MiscreantCipher_Unmarshal(mc *aead.MiscreantCipher, s string, v interface{}) error {
	return cipherOf[mc].Unmarshal(s, v)
}
