package zzverif

import (
	"errors"
	"io"
	"net/http"
	"net/http/httptest"
	"net/url"
	"strings"
)

// UpstreamT is the backend behind the real reverse-proxy chain. Natively it is a real
// httptest server (the forwarded request crosses a socket and is parsed by net/http, which
// is what an upstream sees); under the executor the http.Transport model hands the
// outgoing request to it directly.
type UpstreamT struct {
	RespStatus int
	RespHeader http.Header // headers the upstream sets on its response
	Calls      int
	Method     string
	Host       string
	Path       string
	RawQuery   string
	Header     http.Header // request headers as received
	Body       string
	HasBody    bool
	Fail       bool // the backend accepts the connection and drops it without answering (bad gateway)
	srv        *httptest.Server
}

var errUpstreamDropped = errors.New("EOF (backend dropped the connection)")

var Upstream = &UpstreamT{}

// Upstreams are additional backends (multi-upstream harnesses); Upstreams[0] == Upstream.
var Upstreams [3]*UpstreamT

// StartUpstreamN starts backend i and returns its host[:port].
func StartUpstreamN(i int) string {
	if i == 0 {
		h := StartUpstream()
		Upstreams[0] = Upstream
		return h
	}
	if Upstreams[i] != nil && Upstreams[i].srv != nil {
		Upstreams[i].srv.Close()
	}
	u := &UpstreamT{RespStatus: 200, RespHeader: http.Header{}}
	Upstreams[i] = u
	u.srv = httptest.NewServer(u.handler())
	pu, _ := url.Parse(u.srv.URL)
	return pu.Host
}

func VerifModel_zzverif_StartUpstreamN(i int) string {
	u := &UpstreamT{RespStatus: 200, RespHeader: http.Header{}}
	Upstreams[i] = u
	if i == 0 {
		Upstream = u
		return "upstream.test"
	}
	return "upstream" + itoa(i) + ".test"
}

func (u *UpstreamT) handler() http.Handler {
	return http.HandlerFunc(func(w http.ResponseWriter, r *http.Request) {
		if u.Fail {
			if hj, ok := w.(http.Hijacker); ok {
				if conn, _, err := hj.Hijack(); err == nil {
					conn.Close()
					return
				}
			}
		}
		u.Calls++
		u.Method, u.Host, u.Path, u.RawQuery, u.Header = r.Method, r.Host, r.URL.Path, r.URL.RawQuery, r.Header
		b, _ := io.ReadAll(r.Body)
		u.Body, u.HasBody = string(b), len(b) > 0
		for k, vv := range u.RespHeader {
			for _, v := range vv {
				w.Header().Add(k, v)
			}
		}
		w.WriteHeader(u.RespStatus)
	})
}

// StartUpstream resets the backend and returns its host[:port].
func StartUpstream() string {
	if Upstream.srv != nil {
		Upstream.srv.Close()
	}
	u := &UpstreamT{RespStatus: 200, RespHeader: http.Header{}}
	Upstream = u
	u.srv = httptest.NewServer(http.HandlerFunc(func(w http.ResponseWriter, r *http.Request) {
		if u.Fail {
			if hj, ok := w.(http.Hijacker); ok {
				if conn, _, err := hj.Hijack(); err == nil {
					conn.Close()
					return
				}
			}
		}
		u.Calls++
		u.Method, u.Host, u.Path, u.RawQuery, u.Header = r.Method, r.Host, r.URL.Path, r.URL.RawQuery, r.Header
		b, _ := io.ReadAll(r.Body)
		u.Body, u.HasBody = string(b), len(b) > 0
		for k, vv := range u.RespHeader {
			for _, v := range vv {
				w.Header().Add(k, v)
			}
		}
		w.WriteHeader(u.RespStatus)
	}))
	pu, _ := url.Parse(u.srv.URL)
	return pu.Host
}

func VerifModel_zzverif_StartUpstream() string {
	Upstream = &UpstreamT{RespStatus: 200, RespHeader: http.Header{}}
	return "upstream.test"
}

// StopUpstream closes the native server.
func StopUpstream() {
	if Upstream.srv != nil {
		Upstream.srv.Close()
		Upstream.srv = nil
	}
}

func VerifModel_zzverif_StopUpstream() {}

// (*http.Transport).RoundTrip under the executor: deliver to the backend model.
func VerifModel_http_Transport_RoundTrip(t *http.Transport, req *http.Request) (*http.Response, error) {
	u := Upstream
	for i := 1; i < len(Upstreams); i++ {
		if Upstreams[i] != nil && req.URL.Host == "upstream"+itoa(i)+".test" {
			u = Upstreams[i]
		}
	}
	if u.Fail {
		return nil, errUpstreamDropped
	}
	u.Calls++
	u.Method, u.Host, u.Path, u.RawQuery, u.Header = req.Method, req.Host, req.URL.Path, req.URL.RawQuery, req.Header
	if req.Body != nil {
		if b, ok := req.Body.(*Body); ok {
			u.Body, u.HasBody = string(b.Data), true
		}
	}
	h := http.Header{}
	for k, vv := range u.RespHeader {
		h[k] = vv
	}
	return &http.Response{StatusCode: u.RespStatus, Header: h, Body: &Body{}}, nil
}

// HeaderValues returns the values of a canonical header key (nil if absent).
func HeaderValues(h http.Header, key string) []string { return h[key] }

var _ = strings.Join
