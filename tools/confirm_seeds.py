#!/usr/bin/env python3
"""Confirms sub-agent mutants: demo passes on pristine, fails with the patch; existing suite unchanged."""
import os, re, subprocess, sys, json, glob, concurrent.futures
ENV = dict(os.environ, GOFLAGS='-mod=mod', GOPROXY='off', GOSUMDB='off')
def sh(cmd, cwd, timeout=1800):
    p = subprocess.run(cmd, shell=True, cwd=cwd, env=ENV, capture_output=True, text=True, timeout=timeout)
    return p.returncode, p.stdout + p.stderr
def pkgdir_for(demo, readme):
    src = open(demo).read()
    m = re.search(r'^package (\w+)', src, re.M)
    pkg = m.group(1).replace('_test', '')
    cands = []
    for root, dirs, files in os.walk('/repo/internal'):
        for f in files:
            if f.endswith('.go') and not f.endswith('_test.go'):
                s = open(os.path.join(root, f)).read()
                if re.search(r'^package %s\b' % pkg, s, re.M):
                    cands.append(os.path.relpath(root, '/repo')); break
    cands = sorted(set(cands))
    rd = open(readme).read() if os.path.exists(readme) else ''
    ment = [c for c in cands if c in rd]
    # prefer the longest mentioned path
    if ment: return sorted(ment, key=len)[-1]
    return cands[0] if cands else None
def confirm(mdir):
    name = mdir.rstrip('/').split('/')[-2] + '-' + mdir.rstrip('/').split('/')[-1]
    if os.environ.get('SEED_GLOB'):
        name = os.path.basename(mdir.rstrip('/'))
    out = {'mutant': name}
    patch = os.path.join(mdir, 'patch.diff'); demo = os.path.join(mdir, 'zz_seed_demo_test.go')
    if not (os.path.exists(patch) and os.path.exists(demo)):
        out['status'] = 'missing files'; return out
    wt = '/tmp/confirm/' + name
    sh('git -C /repo worktree remove --force %s; rm -rf %s' % (wt, wt), '/')
    rc, o = sh('git -C /repo worktree add -q --detach %s HEAD' % wt, '/')
    try:
        pd = pkgdir_for(demo, os.path.join(mdir, 'README.md'))
        out['pkgdir'] = pd
        sh('cp %s %s/%s/' % (demo, wt, pd), '/')
        tests = re.findall(r'^func (Test\w+)\(', open(demo).read(), re.M)
        run = '^(' + '|'.join(tests) + ')$'
        rc0, o0 = sh("go test -vet=off -count=1 -run '%s' ./%s" % (run, pd), wt)
        out['demo_pristine_pass'] = rc0 == 0
        rc, o = sh('git apply %s' % patch, wt)
        out['applies'] = rc == 0
        rc1, o1 = sh("go test -vet=off -count=1 -run '%s' ./%s" % (run, pd), wt)
        out['demo_mutant_fails'] = rc1 != 0 and 'FAIL' in o1 and '[build failed]' not in o1
        os.remove(os.path.join(wt, pd, 'zz_seed_demo_test.go'))
        rc2, o2 = sh('go build ./... && go test -vet=off -count=1 -p 2 ./... 2>&1', wt, timeout=3000)
        fails = sorted(set(re.findall(r'^--- FAIL: (\S+)', o2, re.M)))
        out['suite_failures'] = fails
        out['suite_ok'] = set(fails) <= {'TestRoundTrip', 'TestRoundTrip/no_error'} and 'build failed' not in o2
        out['status'] = 'confirmed' if all([out['demo_pristine_pass'], out['applies'], out['demo_mutant_fails'], out['suite_ok']]) else 'REJECTED'
        if out['status'] != 'confirmed':
            out['log'] = (o0[-600:] + '\n----\n' + o1[-600:] + '\n----\n' + o2[-600:])
    except Exception as e:
        out['status'] = 'error: %r' % e
    finally:
        sh('git -C /repo worktree remove --force %s' % wt, '/')
    return out
if __name__ == '__main__':
    mdirs = sorted(glob.glob(os.environ.get('SEED_GLOB') or '/tmp/seed-out/C*/m*/'))
    logf = os.environ.get('SEED_LOG') or '/tmp/seed-out/confirm.jsonl'
    if len(sys.argv) > 1: mdirs = [m for m in mdirs if any(a in m for a in sys.argv[1:])]
    with concurrent.futures.ThreadPoolExecutor(max_workers=3) as ex:
        for r in ex.map(confirm, mdirs):
            print(json.dumps(r), flush=True)
            open(logf, 'a').write(json.dumps(r) + '\n')
