#!/bin/bash
# usage: trymutant.sh <patch.diff> <ID>...   applies the patch to /repo, runs the checks, reverts.
patch=$1; shift
cd /repo && { git apply "$patch" 2>/dev/null || git apply -3 "$patch" 2>/dev/null; } || { echo "patch does not apply"; exit 3; }
trap 'cd /repo && git reset -q --hard HEAD && git clean -fdq' EXIT
for id in "$@"; do
  out=$(/verif/bin/gosmt check $id 2>&1); rc=$?
  echo "== $id rc=$rc"; echo "$out" | grep -E "^(VIOLATION|KNOWN|INCONCLUSIVE|OK|  harness=)" | cut -c1-260 | head -12
done
