#!/usr/bin/env python3
"""Runs the registered checks against behaviour-preserving refactorings (on scratch worktrees,
never /repo): the expected verdict is exit 0; exit 1 would be a false alarm, exit 2 a gap of
the executor. Writes /verif/benign/<id>/meta.json."""
import os, re, subprocess, sys, json, glob, concurrent.futures
claimed = [c['property_id'] for c in json.load(open('/verif/MANIFEST.json'))['checks']]
def sh(cmd, cwd='/', env=None, timeout=3000):
    p = subprocess.run(cmd, shell=True, cwd=cwd, env=env, capture_output=True, text=True, timeout=timeout)
    return p.returncode, p.stdout + p.stderr
def run(mdir):
    mid = os.path.basename(mdir.rstrip('/'))
    prop = mid.split('-')[0]
    wt = '/tmp/bmatrix/' + mid
    sh('git -C /repo worktree remove --force %s; rm -rf %s /tmp/bmatrix/out-%s' % (wt, wt, mid))
    sh('mkdir -p /tmp/bmatrix && git -C /repo worktree add -q --detach %s HEAD' % wt)
    meta = {'refactoring': mid, 'property': prop, 'checks': []}
    readme = os.path.join(mdir, 'README.md')
    if os.path.exists(readme):
        meta['what'] = ' '.join(open(readme).read().split())[:700]
    try:
        rc, o = sh('git apply %s/patch.diff' % mdir, cwd=wt)
        meta['applies'] = rc == 0
        if rc == 0:
            rc, o = sh('GOFLAGS=-mod=mod GOPROXY=off GOSUMDB=off go build ./...', cwd=wt)
            meta['builds'] = rc == 0
            env = dict(os.environ, VERIF_REPO=wt, VERIF_OUT='/tmp/bmatrix/out-' + mid, VERIF_WORKERS='8')
            files = re.findall(r'^\+\+\+ b/(\S+)', open(mdir + '/patch.diff').read(), re.M)
            meta['files'] = files
            # every check whose evidence lists a function of a touched file
            related = []
            for ev in sorted(glob.glob('/verif/evidence/*.json')):
                d = json.load(open(ev))
                if any(x.get('file', '').split(':')[0] in files for x in d['coverage'].get('functions_encoded', []) if isinstance(x, dict)):
                    related.append(d['property_id'])
            chks = [prop] + [c for c in related if c != prop][:int(os.environ.get('BENIGN_RELATED', '2'))]
            meta['checks_selected'] = chks
            for chk in chks:
                if chk not in claimed: continue
                rc, o = sh('/verif/bin/gosmt check %s --tier quick' % chk, cwd='/verif', env=env)
                meta['checks'].append({'check': chk, 'exit': rc, 'verdict': {0: 'passes', 1: 'ALARM', 2: 'inconclusive'}.get(rc, str(rc)),
                                       'lines': [l[:300] for l in o.splitlines() if l.startswith(('VIOLATION', 'INCONCLUSIVE:', '  harness='))][:5]})
        meta['ok'] = all(c.get('exit') == 0 for c in meta['checks']) and bool(meta['checks'])
    finally:
        sh('git -C /repo worktree remove --force %s; rm -rf /tmp/bmatrix/out-%s' % (wt, mid))
    json.dump(meta, open(os.path.join(mdir, 'meta.json'), 'w'), indent=1)
    return mid, meta.get('ok'), [(c['check'], c.get('exit')) for c in meta['checks']]
EXTRA = {}
if __name__ == '__main__':
    mdirs = sorted(glob.glob('/verif/benign/C*-r*/'))
    if os.environ.get('BENIGN_SKIP_DONE'):
        mdirs = [m for m in mdirs if not os.path.exists(m + 'meta.json')]
    if len(sys.argv) > 1: mdirs = [m for m in mdirs if any(a in m for a in sys.argv[1:])]
    with concurrent.futures.ThreadPoolExecutor(max_workers=2) as ex:
        for r in ex.map(run, mdirs):
            print(r, flush=True)
