#!/usr/bin/env python3
"""Runs the registered checks against every seeded mutant (on scratch worktrees, never /repo)
and writes /verif/seeded/<id>/meta.json."""
import os, re, subprocess, sys, json, glob, concurrent.futures
EXTRA = {'C01-m8': ['C13'], 'C01-m9': ['C04'], 'C06-m9': ['C02'], 'C08-m9': [], 'C03-m9': [], 'C16-m9': [], 'C04-m9': ['C01'], 'C13-m9': ['C01'], 'C01-m6': ['C05'], 'C04-m6': ['C01'], 'C08-m7': ['C02'], 'C16-m7': [], 'C19-m6': ['C16'], 'C13-m6': [], 'C01-m4': ['C11', 'C13'], 'C01-m5': ['C16'], 'C04-m4': ['C16'], 'C04-m5': ['C05'], 'C09-m5': ['C16'], 'C10-m4': ['C16'], 'C19-m4': ['C16'], 'C11-m5': ['C13', 'C01'], 'C16-m5': ['C13'], 'C12-m5': ['C14'], 'C09-m2': ['C16'], 'C10-m3': ['C16'], 'C19-m1': ['C07'], 'C01-m3': ['C13', 'C06', 'C11'], 'C11-m2': ['C13', 'C06'], 'C13-m2': ['C11'],
         'C06-m3': ['C11'], 'C04-m3': ['C05'], 'C04-m2': ['C01', 'C05'], 'C18-m3': ['C13']}
confirm = {}
for l in open('/verif/seeded/confirm.jsonl'):
    r = json.loads(l); confirm[r['mutant']] = r
claimed = [c['property_id'] for c in json.load(open('/verif/MANIFEST.json'))['checks']]
def sh(cmd, cwd='/', env=None, timeout=3000):
    p = subprocess.run(cmd, shell=True, cwd=cwd, env=env, capture_output=True, text=True, timeout=timeout)
    return p.returncode, p.stdout + p.stderr
def run(mdir):
    mid = os.path.basename(mdir.rstrip('/'))
    prop = mid.split('-')[0]
    wt = '/tmp/matrix/' + mid
    sh('git -C /repo worktree remove --force %s; rm -rf %s /tmp/matrix/out-%s' % (wt, wt, mid))
    sh('mkdir -p /tmp/matrix && git -C /repo worktree add -q --detach %s HEAD' % wt)
    meta = {'mutant': mid, 'property': prop, 'confirmed_by_builder': confirm.get(mid, {}), 'checks': []}
    readme = os.path.join(mdir, 'README.md')
    if os.path.exists(readme):
        txt = open(readme).read()
        meta['needs_to_manifest'] = ' '.join(txt.split())[:900]
    try:
        rc, o = sh('git apply %s/patch.diff || git apply -3 %s/patch.diff' % (mdir, mdir), cwd=wt)
        meta['applies_on_repaired_tree'] = rc == 0
        if rc != 0:
            meta['note'] = 'patch written against the pristine tree does not apply after the fix: commits: ' + o[-300:]
        else:
            env = dict(os.environ, VERIF_REPO=wt, VERIF_OUT='/tmp/matrix/out-' + mid, VERIF_WORKERS='8')
            for chk in [prop] + EXTRA.get(mid, []):
                if chk not in claimed:
                    meta['checks'].append({'check': chk, 'result': 'property not claimed'}); continue
                rc, o = sh('/verif/bin/gosmt check %s --tier quick' % chk, cwd='/verif', env=env)
                labels = re.findall(r'harness=(\S+) assertion="([^"]+)"', o)
                meta['checks'].append({'check': chk, 'exit': rc, 'verdict': {0: 'not detected', 1: 'VIOLATION (reproduced natively)', 2: 'inconclusive'}.get(rc, str(rc)),
                                       'violated': [{'harness': h, 'assertion': a} for h, a in labels][:6],
                                       'inconclusive': [l[:240] for l in o.splitlines() if l.startswith('INCONCLUSIVE:')][:3]})
        meta['detected'] = any(c.get('exit') == 1 for c in meta['checks'])
    finally:
        sh('git -C /repo worktree remove --force %s; rm -rf /tmp/matrix/out-%s' % (wt, mid))
    meta['what_was_run'] = 'tools/confirm_seeds.py (demo passes on pristine, fails with patch; existing suite unchanged) and tools/seed_matrix.py (patch applied to a scratch worktree of the repaired tree, listed checks run with VERIF_REPO pointing at it)'
    json.dump(meta, open(os.path.join(mdir, 'meta.json'), 'w'), indent=1)
    return mid, meta.get('detected'), [(c['check'], c.get('exit')) for c in meta['checks']]
if __name__ == '__main__':
    mdirs = sorted(glob.glob('/verif/seeded/C*-m*/'))
    if len(sys.argv) > 1: mdirs = [m for m in mdirs if any(a in m for a in sys.argv[1:])]
    with concurrent.futures.ThreadPoolExecutor(max_workers=2) as ex:
        for r in ex.map(run, mdirs):
            print(r, flush=True)
