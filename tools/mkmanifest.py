#!/usr/bin/env python3
"""Regenerates /verif/MANIFEST.json from /verif/props/*.json and tools/levels.json."""
import json, glob, os
V = '/verif'
levels = json.load(open(f'{V}/tools/levels.json'))
props = [json.loads(l) for l in open(f'{V}/properties.jsonl')]
checks, na = [], []
claimed = set()
for p in props:
    pid = p['id']
    spec = f'{V}/props/{pid}.json'
    lv = levels.get(pid, {})
    if os.path.exists(spec) and not lv.get('not_applicable'):
        claimed.add(pid)
        checks.append({
            'property_id': pid,
            'quick_cmd': f'/verif/bin/gosmt check {pid} --tier quick',
            'thorough_cmd': f'/verif/bin/gosmt check {pid} --tier thorough',
            'evidence_file': f'/verif/evidence/{pid}.json',
            'replay_cmd_template': '/verif/bin/gosmt replay {path}',
            'engine': 'gosmt',
            'level_claimed': {'category': 'other', 'text': lv.get('text', ''), 'design_ref': lv.get('design_ref', 'DESIGN.md section 5 ' + pid)},
            'level_note': lv.get('note', ''),
            'technique': lv.get('technique', 'bounded symbolic execution of the real Go SSA into SMT (z3), counterexamples replayed natively'),
        })
    else:
        na.append({'property_id': pid, 'reason': lv.get('not_applicable', 'check not built yet (build in progress); no claim is made')})
m = {
    'version': 1,
    'setup_cmd': 'cd /verif/engine && GOFLAGS=-mod=mod GOPROXY=off GOSUMDB=off GOTOOLCHAIN=local go build -o /verif/bin/gosmt . && /verif/bin/gosmt selftest',
    'hooks': {'guard': 'verif', 'enable': 'none needed: harnesses and models are injected at load time through go/packages overlays (and go test -overlay for replays); /repo is never modified by a check',
              'baseline_off_cmd': 'cd /repo && GOFLAGS=-mod=mod go test -vet=off -count=1 -timeout 25m ./...', 'source_commits': [], 'add_only': True},
    'engines': [{'name': 'gosmt', 'path': '/verif/engine', 'serves_properties': sorted(claimed),
                 'kind_free_text': 'path-forking symbolic executor over go/ssa of the real sso packages; SMT-LIB2 queries to z3 (incremental, one process per worker); harnesses and environment models are Go files overlaid into the packages; counterexamples replayed natively with go test -overlay'}],
    'checks': checks,
    'not_applicable': na,
    'notes': 'Exit codes of every check: 0 = all obligations discharged within the stated bounds; 1 = VIOLATION (a solver model that reproduced natively against the real code); 2 = inconclusive (unmodelled call, solver unknown/timeout, unwinding bound exceeded, vacuous harness, or a model that did not reproduce) - never reported as success. Known findings: /verif/known_findings.json.',
}
json.dump(m, open(f'{V}/MANIFEST.json', 'w'), indent=1)
print('claimed', sorted(claimed), 'not_applicable', [x['property_id'] for x in na])
