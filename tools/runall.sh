#!/bin/bash
# runs every registered check's quick command on the current /repo tree and prints one line each
tier=${1:-quick}
for id in $(python3 -c "import json;print(' '.join(c['property_id'] for c in json.load(open('/verif/MANIFEST.json'))['checks']))"); do
  s=$(date +%s); out=$(/verif/bin/gosmt check $id --tier $tier 2>&1); rc=$?; e=$(date +%s)
  echo "$id rc=$rc $((e-s))s $(echo "$out" | grep -cE '^KNOWN-FINDING') known; $(echo "$out" | grep -E '^(VIOLATION|INCONCLUSIVE:)' | head -2 | cut -c1-160 | tr '\n' ' ')"
done
