package main

import (
	"fmt"
	"go/types"
	"strings"

	"golang.org/x/tools/go/ssa"
)

// SchedSt is the state of a running zzverif.RunSchedule.
type SchedSt struct {
	Budget int
	Steps  int
	Dead   bool
}

// Threads: thread 0 is the harness. `go f()` creates a thread that does not run until
// the harness calls zzverif.RunSchedule(T), which repeatedly picks one enabled thread
// (forking over the candidates) and runs it to its next yield point: a mutex
// acquisition, WaitGroup.Wait, a channel operation, select, or zzverif.Yield().

func (w *Worker) goStmt(s *State, f *Frame, x *ssa.Go) ([]*State, bool) {
	cv := x.Call
	var args []Value
	for _, a := range cv.Args {
		args = append(args, w.val(s, f, a))
	}
	f.PC++
	th := &Thread{ID: len(s.Threads), Name: fmt.Sprintf("t%d", len(s.Threads))}
	s.Threads = append(s.Threads, th)
	cur := s.Cur
	s.Cur = th.ID
	// a root frame that calls the function: use a direct enter
	var forks []*State
	var done bool
	if cv.IsInvoke() {
		forks, done = w.invoke(s, nil, nil, w.val(s, f, cv.Value).(IfaceV), cv.Method, args)
	} else {
		forks, done = w.call(s, nil, nil, w.val(s, f, cv.Value), args)
	}
	s.Cur = cur
	if done || len(forks) > 0 {
		panic(engineErr("go statement target forked at entry"))
	}
	return nil, false
}

func isYieldCall(name string) bool {
	switch name {
	case "(*sync.Mutex).Lock", "(*sync.RWMutex).Lock", "(*sync.RWMutex).RLock", "(*sync.WaitGroup).Wait", rtPkg + "Yield":
		return true
	}
	return false
}

// yieldPoint is called by blocking intrinsics of spawned threads. It returns true if the
// thread must stop here and hand control back to the scheduler (the instruction will be
// re-executed when the thread is picked again).
func (c *icall) yieldPoint() bool {
	s := c.s
	if s.Cur == 0 || s.Sched == nil {
		return false
	}
	th := s.Threads[s.Cur]
	if th.AtYield {
		th.AtYield = false
		return false
	}
	th.AtYield = true
	c.f.PC-- // re-execute the call when resumed
	s.Cur = 0
	return true
}

// schedResume: a spawned thread finished; give control back to thread 0.
func (w *Worker) schedResume(s *State) ([]*State, bool) {
	s.Cur = 0
	return nil, false
}

// enabled reports whether thread i can make a step from its current position.
func (w *Worker) enabled(s *State, i int) bool {
	th := s.Threads[i]
	if th.Done || len(th.Stack) == 0 {
		return false
	}
	if !th.AtYield {
		return true
	}
	f := th.Stack[len(th.Stack)-1]
	in := f.Block.Instrs[f.PC]
	switch x := in.(type) {
	case *ssa.Call:
		if fn, ok := x.Call.Value.(*ssa.Function); ok {
			var recv PtrV
			if len(x.Call.Args) > 0 {
				if p, ok := f.Env[x.Call.Args[0]].(PtrV); ok {
					recv = p
				} else if g, ok := x.Call.Args[0].(*ssa.Global); ok {
					recv = w.global(s, g)
				}
			}
			switch fn.String() {
			case "(*sync.Mutex).Lock", "(*sync.RWMutex).Lock":
				m := s.Mutex[ptrKey(recv)]
				return m.Writer == 0 && m.Readers == 0
			case "(*sync.RWMutex).RLock":
				return s.Mutex[ptrKey(recv)].Writer == 0
			case "(*sync.WaitGroup).Wait":
				return s.wgCount(recv) == 0
			}
		}
		return true
	case *ssa.UnOp: // channel receive
		if cv, ok := f.Env[x.X].(ChanV); ok {
			if cv.Obj == 0 {
				return false
			}
			cd := s.Heap[cv.Obj].(ChanData)
			return len(cd.Buf) > 0 || cd.Closed
		}
	case *ssa.Send:
		if cv, ok := f.Env[x.Chan].(ChanV); ok {
			if cv.Obj == 0 {
				return false
			}
			cd := s.Heap[cv.Obj].(ChanData)
			return cd.Closed || len(cd.Buf) < cd.Cap || cd.Cap == 0 && w.hasReceiver(s, cv, i)
		}
	case *ssa.Select:
		if !x.Blocking {
			return true
		}
		for _, st := range x.States {
			cv, _ := w.val(s, f, st.Chan).(ChanV)
			if cv.Obj == 0 {
				continue
			}
			cd := s.Heap[cv.Obj].(ChanData)
			if st.Dir == types.RecvOnly && (len(cd.Buf) > 0 || cd.Closed) {
				return true
			}
			if st.Dir == types.SendOnly && (len(cd.Buf) < cd.Cap || cd.Closed) {
				return true
			}
		}
		return false
	}
	return true
}

func (w *Worker) hasReceiver(s *State, c ChanV, self int) bool { return false }

func (s *State) wgCount(p PtrV) int {
	if v, ok := s.Mutex["wg:"+ptrKey(p)]; ok {
		return v.Readers
	}
	return 0
}

func init() {
	reg := func(n string, f intrinsic) { intrinsics[rtPkg+n] = f }
	reg("RunSchedule", func(c *icall) ([]*State, bool) {
		s := c.s
		if s.Cur != 0 {
			panic(engineErr("RunSchedule called from a spawned thread"))
		}
		if s.Sched == nil {
			s.Sched = &SchedSt{Budget: concreteInt(c.args[0], "RunSchedule budget")}
		}
		var en []int
		unfinished := 0
		for i := 1; i < len(s.Threads); i++ {
			if !s.Threads[i].Done && len(s.Threads[i].Stack) > 0 {
				unfinished++
				if c.w.enabled(s, i) {
					en = append(en, i)
				}
			} else {
				s.Threads[i].Done = true
			}
		}
		finish := func(res string) ([]*State, bool) {
			s.Sched = nil
			c.set(litStr(res))
			return nil, false
		}
		if unfinished == 0 {
			return finish("done")
		}
		if len(en) == 0 {
			return finish("deadlock")
		}
		if s.Sched.Budget == 0 {
			return finish("budget")
		}
		depth := len(s.stack())
		var out []*State
		for k, i := range en {
			st := s
			if k < len(en)-1 {
				st = s.Fork()
			}
			st.Sched.Budget--
			st.Sched.Steps++
			key := st.nextKey("$sched")
			st.Nondet = append(st.Nondet, NondetRec{Key: key, Kind: "choice", Term: fmt.Sprint(i)})
			// what the step starts from: a controllable point (thread start / zz.Yield) or a
			// synchronisation point (mutex, WaitGroup, channel) - the native replay needs to know
			kind := "start"
			if th := st.Threads[i]; th.AtYield && len(th.Stack) > 0 {
				kind = "sync"
				f := th.Stack[len(th.Stack)-1]
				if call, ok := f.Block.Instrs[f.PC].(*ssa.Call); ok {
					if fn, ok := call.Call.Value.(*ssa.Function); ok && fn.String() == rtPkg+"Yield" {
						kind = "yield"
					}
				}
			}
			st.Nondet = append(st.Nondet, NondetRec{Key: st.nextKey("$schedkind"), Kind: "label", Term: kind})
			st.Trace = append(st.Trace, fmt.Sprintf("sched: run %s", st.Threads[i].Name))
			st.Threads[0].Stack[depth-1].PC-- // re-run RunSchedule when control returns
			st.Cur = i
			out = append(out, st)
		}
		if len(out) == 1 {
			return nil, false
		}
		return out, true
	})
	reg("Go", func(c *icall) ([]*State, bool) {
		s := c.s
		th := &Thread{ID: len(s.Threads), Name: litArg(c.args[0], "thread name")}
		s.Threads = append(s.Threads, th)
		cur := s.Cur
		s.Cur = th.ID
		forks, done := c.w.call(s, nil, nil, c.args[1], nil)
		s.Cur = cur
		if done || len(forks) > 0 {
			panic(engineErr("zz.Go target forked at entry"))
		}
		return nil, false
	})
	reg("ResetSchedule", func(c *icall) ([]*State, bool) { return nil, false })
	reg("Yield", func(c *icall) ([]*State, bool) {
		c.yieldPoint()
		return nil, false
	})
	reg("ThreadName", func(c *icall) ([]*State, bool) {
		if c.s.Cur < len(c.s.Threads) {
			c.s.Threads[c.s.Cur].Name = litArg(c.args[0], "thread name")
		}
		return nil, false
	})

	I := intrinsics
	lock := func(kind string) intrinsic {
		return func(c *icall) ([]*State, bool) {
			p := c.args[0].(PtrV)
			if p.Obj == 0 {
				panic(goPanic{"nil mutex"})
			}
			k := ptrKey(p)
			if (kind == "lock" || kind == "rlock") && c.yieldPoint() {
				return nil, false
			}
			m := c.s.Mutex[k]
			switch kind {
			case "lock":
				if m.Writer != 0 || m.Readers != 0 {
					panic(engineErr("thread would block on a held mutex outside the scheduler (deadlock or unscheduled contention)"))
				}
				m.Writer = c.s.Cur + 1
			case "rlock":
				if m.Writer != 0 {
					panic(engineErr("thread would block on a write-held RWMutex outside the scheduler"))
				}
				m.Readers++
			case "unlock":
				if m.Writer == 0 {
					panic(goPanic{"sync: unlock of unlocked mutex"})
				}
				m.Writer = 0
			case "runlock":
				if m.Readers == 0 {
					panic(goPanic{"sync: RUnlock of unlocked RWMutex"})
				}
				m.Readers--
			}
			c.s.Mutex[k] = m
			return nil, false
		}
	}
	I["(*sync.Mutex).Lock"] = lock("lock")
	I["(*sync.Mutex).Unlock"] = lock("unlock")
	I["(*sync.RWMutex).Lock"] = lock("lock")
	I["(*sync.RWMutex).Unlock"] = lock("unlock")
	I["(*sync.RWMutex).RLock"] = lock("rlock")
	I["(*sync.RWMutex).RUnlock"] = lock("runlock")
	I["(*sync.WaitGroup).Add"] = func(c *icall) ([]*State, bool) {
		k := "wg:" + ptrKey(c.args[0].(PtrV))
		m := c.s.Mutex[k]
		m.Readers += concreteInt(c.args[1], "WaitGroup.Add delta")
		if m.Readers < 0 {
			panic(goPanic{"sync: negative WaitGroup counter"})
		}
		c.s.Mutex[k] = m
		return nil, false
	}
	I["(*sync.WaitGroup).Done"] = func(c *icall) ([]*State, bool) {
		k := "wg:" + ptrKey(c.args[0].(PtrV))
		m := c.s.Mutex[k]
		m.Readers--
		if m.Readers < 0 {
			panic(goPanic{"sync: negative WaitGroup counter"})
		}
		c.s.Mutex[k] = m
		return nil, false
	}
	I["(*sync.WaitGroup).Wait"] = func(c *icall) ([]*State, bool) {
		if c.yieldPoint() {
			return nil, false
		}
		if c.s.wgCount(c.args[0].(PtrV)) != 0 {
			panic(engineErr("WaitGroup.Wait would block outside the scheduler"))
		}
		return nil, false
	}
}

// ---- channels ----

func (w *Worker) chanYield(s *State, f *Frame) bool {
	if s.Cur == 0 || s.Sched == nil {
		return false
	}
	th := s.Threads[s.Cur]
	if th.AtYield {
		th.AtYield = false
		return false
	}
	th.AtYield = true
	s.Cur = 0
	return true
}

func (w *Worker) chanRecv(s *State, f *Frame, x *ssa.UnOp, c ChanV, commaOk bool) ([]*State, bool) {
	if w.chanYield(s, f) {
		return nil, false
	}
	if c.Obj == 0 {
		panic(engineErr("receive from nil channel blocks forever"))
	}
	cd := s.Heap[c.Obj].(ChanData)
	et := x.X.Type().Underlying().(*types.Chan).Elem()
	var v Value
	ok := true
	switch {
	case len(cd.Buf) > 0:
		v = cd.Buf[0]
		cd.Buf = append([]Value(nil), cd.Buf[1:]...)
		s.Heap[c.Obj] = cd
	case cd.Closed:
		v, ok = zero(et), false
	default:
		panic(engineErr("channel receive would block outside the scheduler"))
	}
	if commaOk {
		f.Env[x] = TupleV{[]Value{v, mkBool(ok)}}
	} else {
		f.Env[x] = v
	}
	f.PC++
	return nil, false
}

func (w *Worker) chanSend(s *State, f *Frame, c ChanV, v Value) ([]*State, bool) {
	if w.chanYield(s, f) {
		return nil, false
	}
	if c.Obj == 0 {
		panic(engineErr("send on nil channel blocks forever"))
	}
	cd := s.Heap[c.Obj].(ChanData)
	if cd.Closed {
		panic(goPanic{"send on closed channel"})
	}
	// unbuffered channels are modelled as capacity-1 rendezvous buffers
	capv := cd.Cap
	if capv == 0 {
		capv = 1
	}
	if len(cd.Buf) >= capv {
		panic(engineErr("channel send would block outside the scheduler"))
	}
	cd.Buf = append(append([]Value(nil), cd.Buf...), v)
	s.Heap[c.Obj] = cd
	f.PC++
	return nil, false
}

func (w *Worker) selectStmt(s *State, f *Frame, x *ssa.Select) ([]*State, bool) {
	if w.chanYield(s, f) {
		return nil, false
	}
	// ready cases
	type rc struct{ idx int }
	var ready []int
	for i, st := range x.States {
		cv, _ := w.val(s, f, st.Chan).(ChanV)
		if cv.Obj == 0 {
			continue
		}
		cd := s.Heap[cv.Obj].(ChanData)
		capv := cd.Cap
		if capv == 0 {
			capv = 1
		}
		if st.Dir == types.RecvOnly && (len(cd.Buf) > 0 || cd.Closed) || st.Dir == types.SendOnly && len(cd.Buf) < capv {
			ready = append(ready, i)
		}
	}
	if len(ready) == 0 {
		if !x.Blocking {
			res := []Value{mkInt(-1), mkBool(false)}
			for _, st := range x.States {
				if st.Dir == types.RecvOnly {
					res = append(res, zero(st.Chan.Type().Underlying().(*types.Chan).Elem()))
				}
			}
			f.Env[x] = TupleV{res}
			f.PC++
			return nil, false
		}
		panic(engineErr("select would block outside the scheduler"))
	}
	depth := len(s.stack())
	conds := make([]string, len(ready))
	for i := range conds {
		conds[i] = "true"
	}
	apply := func(st *State, k int) {
		i := ready[k]
		cf := st.stack()[depth-1]
		sel := x.States[i]
		cv := w.val(st, cf, sel.Chan).(ChanV)
		cd := st.Heap[cv.Obj].(ChanData)
		res := []Value{mkInt(int64(i)), mkBool(false)}
		var got Value
		if sel.Dir == types.RecvOnly {
			if len(cd.Buf) > 0 {
				got = cd.Buf[0]
				cd.Buf = append([]Value(nil), cd.Buf[1:]...)
				res[1] = mkBool(true)
			} else {
				got = zero(sel.Chan.Type().Underlying().(*types.Chan).Elem())
			}
		} else {
			cd.Buf = append(append([]Value(nil), cd.Buf...), w.val(st, cf, sel.Send))
		}
		st.Heap[cv.Obj] = cd
		for j, o := range x.States {
			if o.Dir == types.RecvOnly {
				if j == i {
					res = append(res, got)
				} else {
					res = append(res, zero(o.Chan.Type().Underlying().(*types.Chan).Elem()))
				}
			}
		}
		cf.Env[x] = TupleV{res}
		cf.PC++
		st.Trace = append(st.Trace, fmt.Sprintf("select: case %d", i))
	}
	if len(ready) == 1 {
		apply(s, 0)
		return nil, false
	}
	var out []*State
	for k := range ready {
		st := s
		if k < len(ready)-1 {
			st = s.Fork()
		}
		key := st.nextKey("$select")
		st.Nondet = append(st.Nondet, NondetRec{Key: key, Kind: "choice", Term: fmt.Sprint(ready[k])})
		apply(st, k)
		out = append(out, st)
	}
	return out, true
}

var _ = strings.Join
