package main

import (
	"fmt"
	"go/types"
	"strings"

	"golang.org/x/tools/go/ssa"
)

// icall is the context handed to an intrinsic.
type icall struct {
	w    *Worker
	s    *State
	f    *Frame
	dest ssa.Value
	args []Value
	fn   *ssa.Function
	name string
}

func (c *icall) set(v Value) {
	if c.dest != nil {
		c.f.Env[c.dest] = v
	}
}
func (c *icall) setTuple(vs ...Value) { c.set(TupleV{E: vs}) }

type intrinsic func(c *icall) ([]*State, bool)

var intrinsics = map[string]intrinsic{}

// noopPkgs: calls into these packages are no-ops returning zero values
// (logging and metrics do not influence control flow).
var noopPkgs = map[string]bool{
	"github.com/buzzfeed/sso/internal/pkg/logging": true,
	"github.com/datadog/datadog-go/statsd":         true,
	"github.com/sirupsen/logrus":                   true,
}

// transparent: non-sso functions whose real SSA bodies are executed.
var transparentPrefix = []string{
	"(net/http.Header).", "(net/textproto.MIMEHeader).", "(net/url.Values).Get", "(net/url.Values).Set", "(net/url.Values).Add", "(net/url.Values).Del",
	"(net/url.Values).Has", "(*net/http.Request).Context", "(*net/http.Request).UserAgent", "(*net/http.Request).Referer",
	"net/http.StatusText", "(net/http.HandlerFunc).ServeHTTP", "(*net/url.URL).IsAbs", "(*net/url.URL).Query",
	"(*sync.Once).Do", "(*sync.Once).doSlow", "(*sync/atomic.Uint32).Load", "(*sync/atomic.Uint32).Store",
	"net/http.NewRequest", "(*net/http.Request).WithContext",
	"errors.Is", "errors.is",
}

func isTransparent(name string) bool {
	for _, p := range transparentPrefix {
		if strings.HasPrefix(name, p) {
			return true
		}
	}
	return false
}

func mangle(fn *ssa.Function) string {
	pk := ""
	if fn.Pkg != nil {
		pk = fn.Pkg.Pkg.Name()
	} else if o := fn.Object(); o != nil && o.Pkg() != nil {
		pk = o.Pkg().Name()
	}
	if r := fn.Signature.Recv(); r != nil {
		t := r.Type()
		if p, ok := t.(*types.Pointer); ok {
			t = p.Elem()
		}
		if n, ok := t.(*types.Named); ok {
			if n.Obj().Pkg() != nil {
				pk = n.Obj().Pkg().Name()
			}
			return pk + "_" + n.Obj().Name() + "_" + fn.Name()
		}
	}
	return pk + "_" + fn.Name()
}

func zeroResults(sig *types.Signature) Value {
	res := sig.Results()
	switch res.Len() {
	case 0:
		return UnitV{}
	case 1:
		return zero(res.At(0).Type())
	}
	t := TupleV{E: make([]Value, res.Len())}
	for i := range t.E {
		t.E[i] = zero(res.At(i).Type())
	}
	return t
}

func (w *Worker) call(s *State, f *Frame, dest ssa.Value, fv Value, args []Value) ([]*State, bool) {
	fn, ok := fv.(FuncV)
	if !ok || fn.Nil || fn.Fn == nil {
		panic(goPanic{"call of nil function"})
	}
	e := w.E
	name := fn.Fn.String()
	pkgPath := fnPkgPath(fn.Fn)

	// 1. harness runtime and engine intrinsics
	if in, ok := intrinsics[name]; ok {
		e.hitModel("intrinsic:" + name)
		return in(&icall{w: w, s: s, f: f, dest: dest, args: args, fn: fn.Fn, name: name})
	}
	// 2. Go-source models, found by name
	if m, ok := e.Models[mangle(fn.Fn)]; ok && m != fn.Fn && fn.Fn.Synthetic == "" && !s.NoModel[mangle(fn.Fn)] {
		e.hitModel("gomodel:" + mangle(fn.Fn))
		return w.enter(s, dest, FuncV{Fn: m}, args)
	}
	// 3. no-op packages
	if noopPkgs[pkgPath] {
		e.hitModel("noop:" + pkgPath)
		if dest != nil {
			f.Env[dest] = zeroResults(fn.Fn.Signature)
		}
		return nil, false
	}
	if len(fn.Fn.Blocks) == 0 {
		if e.inInit {
			if dest != nil {
				f.Env[dest] = zeroResults(fn.Fn.Signature)
			}
			return nil, false
		}
		panic(engineErr("unmodelled call (no body): " + name + " [model name: " + mangle(fn.Fn) + "]"))
	}
	// 4. sso code, synthetic wrappers, transparent stdlib helpers
	if e.isSSOPath(pkgPath) || fn.Fn.Synthetic != "" && !strings.HasPrefix(fn.Fn.Synthetic, "package initializer") || isTransparent(name) {
		return w.enter(s, dest, fn, args)
	}
	if e.inInit {
		// initialisers of sso packages may call arbitrary library constructors whose results the harnesses never use
		e.hitModel("init-zero:" + name)
		if dest != nil {
			f.Env[dest] = zeroResults(fn.Fn.Signature)
		}
		return nil, false
	}
	panic(engineErr("unmodelled call: " + name + " [model name: " + mangle(fn.Fn) + "]"))
}

func (w *Worker) enter(s *State, dest ssa.Value, fn FuncV, args []Value) ([]*State, bool) {
	e := w.E
	e.hitFn(fn.Fn)
	s.Depth++
	if len(s.stack()) > e.Cfg.MaxDepth {
		panic(engineErr("call depth bound exceeded at " + fn.Fn.String()))
	}
	nf := newFrame(fn.Fn, dest)
	if len(args) != len(fn.Fn.Params) {
		panic(engineErr(fmt.Sprintf("arity mismatch calling %s: %d args, %d params", fn.Fn, len(args), len(fn.Fn.Params))))
	}
	for i, p := range fn.Fn.Params {
		nf.Env[p] = args[i]
	}
	for i, fvv := range fn.Fn.FreeVars {
		nf.Env[fvv] = fn.Free[i]
	}
	s.push(nf)
	return nil, false
}

// callValue schedules a call of a function value from inside an intrinsic (result goes to dest).
func (c *icall) tailCall(fv Value, args []Value) ([]*State, bool) {
	return c.w.call(c.s, c.f, c.dest, fv, args)
}

func (c *icall) tailInvoke(recv IfaceV, method string, args []Value) ([]*State, bool) {
	if recv.Typ == nil {
		panic(goPanic{"nil interface method call " + method})
	}
	m := c.w.E.Prog.LookupMethod(recv.Typ, nil, method)
	if m == nil {
		ms := c.w.E.Prog.MethodSets.MethodSet(recv.Typ)
		for i := 0; i < ms.Len(); i++ {
			if ms.At(i).Obj().Name() == method {
				m = c.w.E.Prog.MethodValue(ms.At(i))
			}
		}
	}
	if m == nil {
		panic(engineErr("no method " + method + " on " + recv.Typ.String()))
	}
	return c.w.call(c.s, c.f, c.dest, FuncV{Fn: m}, append([]Value{recv.V}, args...))
}
