package main

import (
	"fmt"
	"go/types"
	"net/url"
	"strings"

	"golang.org/x/tools/go/ssa"
)

// urlType finds the types.Type of net/url.URL in the loaded program.
func (w *Worker) namedType(pkg, name string) types.Type {
	for _, p := range w.E.Prog.AllPackages() {
		if p.Pkg.Path() == pkg {
			if o := p.Pkg.Scope().Lookup(name); o != nil {
				return o.Type()
			}
		}
	}
	panic(engineErr("type " + pkg + "." + name + " not loaded"))
}

func fieldIndex(st *types.Struct, name string) int {
	for i := 0; i < st.NumFields(); i++ {
		if st.Field(i).Name() == name {
			return i
		}
	}
	panic(engineErr("no field " + name))
}

// urlToValue converts a concrete url.URL to a symbolic struct value.
func (w *Worker) urlToValue(u *url.URL) StructV {
	t := w.namedType("net/url", "URL")
	st := t.Underlying().(*types.Struct)
	sv := zero(t).(StructV)
	set := func(n string, v Value) { sv.F[fieldIndex(st, n)] = v }
	if u.User != nil {
		ut := w.namedType("net/url", "Userinfo")
		ust := ut.Underlying().(*types.Struct)
		uv := zero(ut).(StructV)
		pw, has := u.User.Password()
		uv.F[fieldIndex(ust, "username")] = litStr(u.User.Username())
		uv.F[fieldIndex(ust, "password")] = litStr(pw)
		uv.F[fieldIndex(ust, "passwordSet")] = mkBool(has)
		w.pendingUser = &uv
	}
	set("Scheme", litStr(u.Scheme))
	set("Opaque", litStr(u.Opaque))
	set("Host", litStr(u.Host))
	set("Path", litStr(u.Path))
	set("RawPath", litStr(u.RawPath))
	set("OmitHost", mkBool(u.OmitHost))
	set("ForceQuery", mkBool(u.ForceQuery))
	set("RawQuery", litStr(u.RawQuery))
	set("Fragment", litStr(u.Fragment))
	set("RawFragment", litStr(u.RawFragment))
	return sv
}

// urlAlloc allocates a converted URL (and its Userinfo, if any) on the heap of s.
func (w *Worker) urlAlloc(s *State, u *url.URL) PtrV {
	w.pendingUser = nil
	sv := w.urlToValue(u)
	if w.pendingUser != nil {
		st := w.namedType("net/url", "URL").Underlying().(*types.Struct)
		sv.F[fieldIndex(st, "User")] = s.alloc(*w.pendingUser)
		w.pendingUser = nil
	}
	return s.alloc(sv)
}

// valueToURL converts a fully concrete URL struct value back; ok=false if any field is symbolic.
func (w *Worker) valueToURL(sv StructV) (*url.URL, bool) {
	t := w.namedType("net/url", "URL")
	st := t.Underlying().(*types.Struct)
	u := &url.URL{}
	ok := true
	str := func(n string) string {
		v := sv.F[fieldIndex(st, n)].(StrV)
		if v.K != SLit {
			ok = false
		}
		return v.S
	}
	bl := func(n string) bool {
		v := sv.F[fieldIndex(st, n)].(BoolV)
		if !v.IsLit() {
			ok = false
		}
		return v.T == "true"
	}
	u.Scheme, u.Opaque, u.Host, u.Path, u.RawPath = str("Scheme"), str("Opaque"), str("Host"), str("Path"), str("RawPath")
	u.OmitHost, u.ForceQuery = bl("OmitHost"), bl("ForceQuery")
	u.RawQuery, u.Fragment, u.RawFragment = str("RawQuery"), str("Fragment"), str("RawFragment")
	if p := sv.F[fieldIndex(st, "User")].(PtrV); p.Obj != 0 {
		if w.curState == nil {
			ok = false
		} else if uv, isS := w.curState.Heap[p.Obj].(StructV); isS {
			ust := w.namedType("net/url", "Userinfo").Underlying().(*types.Struct)
			name, n1 := uv.F[fieldIndex(ust, "username")].(StrV)
			pw, n2 := uv.F[fieldIndex(ust, "password")].(StrV)
			set, n3 := uv.F[fieldIndex(ust, "passwordSet")].(BoolV)
			if n1 && n2 && n3 && name.K == SLit && pw.K == SLit && set.IsLit() {
				if set.T == "true" {
					u.User = url.UserPassword(name.S, pw.S)
				} else {
					u.User = url.User(name.S)
				}
			} else {
				ok = false
			}
		}
	}
	return u, ok
}

func (c *icall) urlField(sv StructV, n string) StrV {
	st := c.w.namedType("net/url", "URL").Underlying().(*types.Struct)
	return sv.F[fieldIndex(st, n)].(StrV)
}

// fallbackModel runs the Go-source model named key, or fails as unmodelled.
func (c *icall) fallbackModel(key string) ([]*State, bool) {
	if m, ok := c.w.E.Models[key]; ok {
		c.w.E.hitModel("gomodel:" + key)
		return c.w.enter(c.s, c.dest, FuncV{Fn: m}, c.args)
	}
	panic(engineErr("unmodelled call on symbolic input: " + c.name + " [model name: " + key + "]"))
}

func valuesToMap(s *State, vals url.Values, et types.Type) MapV {
	md := MapData{}
	// deterministic order
	keys := make([]string, 0, len(vals))
	for k := range vals {
		keys = append(keys, k)
	}
	for i := 1; i < len(keys); i++ {
		for j := i; j > 0 && keys[j] < keys[j-1]; j-- {
			keys[j], keys[j-1] = keys[j-1], keys[j]
		}
	}
	for _, k := range keys {
		el := make([]StrV, len(vals[k]))
		for i, v := range vals[k] {
			el[i] = litStr(v)
		}
		md.K = append(md.K, litStr(k))
		md.V = append(md.V, strSliceVal(s, el))
	}
	p := s.alloc(md)
	return MapV{p.Obj}
}

func init() {
	I := intrinsics
	I["net/url.Parse"] = func(c *icall) ([]*State, bool) {
		sv := c.str(0)
		if sv.K == SOpaque && strings.Contains(sv.Pre, "?") && !strings.Contains(sv.Pre, "#") {
			// literal "scheme://host/path?" followed by a symbolic query (assumed to contain
			// no '#': the symbolic parts are form values joined by Values.Encode)
			k := strings.Index(sv.Pre, "?")
			u, err := url.Parse(sv.Pre[:k])
			if err == nil {
				uv := c.w.urlToValue(u)
				st := c.w.namedType("net/url", "URL").Underlying().(*types.Struct)
				q := opaqueStr(fmt.Sprintf("(str.substr %s %d (- (str.len %s) %d))", sv.T, k+1, sv.T, k+1))
				q.Pre = sv.Pre[k+1:]
				uv.F[fieldIndex(st, "RawQuery")] = q
				c.setTuple(c.s.alloc(uv), IfaceV{})
				return nil, false
			}
		}
		if sv.K != SLit {
			return c.fallbackModel("url_Parse")
		}
		u, err := url.Parse(sv.S)
		if err != nil {
			c.setTuple(PtrV{}, c.opaqueErr(litStr(err.Error())))
			return nil, false
		}
		c.setTuple(c.w.urlAlloc(c.s, u), IfaceV{})
		return nil, false
	}
	I["net/url.ParseRequestURI"] = func(c *icall) ([]*State, bool) {
		sv := c.str(0)
		if sv.K != SLit {
			return c.fallbackModel("url_ParseRequestURI")
		}
		u, err := url.ParseRequestURI(sv.S)
		if err != nil {
			c.setTuple(PtrV{}, c.opaqueErr(litStr(err.Error())))
			return nil, false
		}
		c.setTuple(c.w.urlAlloc(c.s, u), IfaceV{})
		return nil, false
	}
	I["(*net/url.URL).String"] = func(c *icall) ([]*State, bool) {
		p := c.args[0].(PtrV)
		if p.Obj == 0 {
			panic(goPanic{"nil *url.URL"})
		}
		sv := c.s.load(p).(StructV)
		if u, ok := c.w.valueToURL(sv); ok {
			c.set(litStr(u.String()))
			return nil, false
		}
		if _, ok := c.w.E.Models["url_URL_String"]; ok {
			return c.fallbackModel("url_URL_String")
		}
		panic(engineErr("URL.String on symbolic components without a model"))
	}
	I["(*net/url.URL).RequestURI"] = func(c *icall) ([]*State, bool) {
		sv := c.s.load(c.args[0].(PtrV)).(StructV)
		if u, ok := c.w.valueToURL(sv); ok {
			c.set(litStr(u.RequestURI()))
			return nil, false
		}
		// path (or "/" when empty) + "?" + query when the query is non-empty; no escaping needed is assumed
		path, q := c.urlField(sv, "Path"), c.urlField(sv, "RawQuery")
		pt := path.term()
		p2 := opaqueStr(tIte(tEq(pt, `""`), `"/"`, pt))
		if path.K == SLit {
			if path.S == "" {
				p2 = litStr("/")
			} else {
				p2 = path
			}
		}
		if q.K == SLit {
			if q.S == "" {
				c.set(p2)
			} else {
				c.set(strConcatN(p2, litStr("?"+q.S)))
			}
			return nil, false
		}
		withQ := strConcatN(p2, litStr("?"), q)
		c.set(opaqueStr(tIte(tEq(q.term(), `""`), p2.term(), withQ.term())))
		return nil, false
	}
	I["(*net/url.URL).EscapedPath"] = func(c *icall) ([]*State, bool) {
		sv := c.s.load(c.args[0].(PtrV)).(StructV)
		if u, ok := c.w.valueToURL(sv); ok {
			c.set(litStr(u.EscapedPath()))
			return nil, false
		}
		// paths that need no escaping (assumed by the harnesses that use symbolic paths)
		c.set(c.urlField(sv, "Path"))
		return nil, false
	}
	I["(*net/url.URL).ResolveReference"] = func(c *icall) ([]*State, bool) {
		a, aok := c.w.valueToURL(c.s.load(c.args[0].(PtrV)).(StructV))
		b, bok := c.w.valueToURL(c.s.load(c.args[1].(PtrV)).(StructV))
		if !aok || !bok {
			return c.fallbackModel("url_URL_ResolveReference")
		}
		c.set(c.w.urlAlloc(c.s, a.ResolveReference(b)))
		return nil, false
	}
	I["(*net/url.URL).Hostname"] = func(c *icall) ([]*State, bool) {
		u, ok := c.w.valueToURL(c.s.load(c.args[0].(PtrV)).(StructV))
		if !ok {
			return c.fallbackModel("url_URL_Hostname")
		}
		c.set(litStr(u.Hostname()))
		return nil, false
	}
	I["net/url.ParseQuery"] = func(c *icall) ([]*State, bool) {
		sv := c.str(0)
		if sv.K != SLit {
			return c.fallbackModel("url_ParseQuery")
		}
		vals, err := url.ParseQuery(sv.S)
		m := valuesToMap(c.s, vals, nil)
		if err != nil {
			c.setTuple(m, c.opaqueErr(litStr(err.Error())))
		} else {
			c.setTuple(m, IfaceV{})
		}
		return nil, false
	}
	I["net/url.QueryEscape"] = func(c *icall) ([]*State, bool) {
		sv := c.str(0)
		if sv.K == SLit {
			c.set(litStr(url.QueryEscape(sv.S)))
		} else {
			c.set(opaqueStr(c.w.applyUF(c.s, "url.QueryEscape", []Value{sv}, "String", "string")))
		}
		return nil, false
	}
	// url.QueryUnescape / PathUnescape of a symbolic string: uninterpreted, with the one fact
	// that a string without '%' (and, for queries, '+') is returned unchanged
	unescape := func(query bool) intrinsic {
		return func(c *icall) ([]*State, bool) {
			a := c.str(0)
			if a.K == SLit {
				var r string
				var err error
				if query {
					r, err = url.QueryUnescape(a.S)
				} else {
					r, err = url.PathUnescape(a.S)
				}
				if err != nil {
					c.setTuple(litStr(""), c.opaqueErr(litStr(err.Error())))
				} else {
					c.setTuple(litStr(r), IfaceV{})
				}
				return nil, false
			}
			name := "url.pathunescape"
			if query {
				name = "url.queryunescape"
			}
			okv := c.w.applyUF(c.s, name+".ok", []Value{a}, "Bool", "bool")
			r := c.w.applyUF(c.s, name, []Value{a}, "String", "string")
			plain := tNot(strContains(a, litStr("%")))
			if query {
				plain = tAnd(plain, tNot(strContains(a, litStr("+"))))
			}
			c.s.addPC(tImp(plain, tAnd(okv, tEq(r, a.term()))))
			if query {
				// without '%' decoding cannot fail, and every '+' becomes a space
				noPct := tNot(strContains(a, litStr("%")))
				c.s.addPC(tImp(noPct, okv))
				c.s.addPC(tImp(tAnd(noPct, strContains(a, litStr("+"))), tAnd(tNot(tEq(r, a.term())), tEq("(str.len "+r+")", "(str.len "+a.term()+")"))))
			}
			depth := len(c.s.stack())
			dest := c.dest
			errV := c.opaqueErr(litStr("invalid URL escape"))
			return c.w.branch(c.s, okv,
				func(st *State) {
					if dest != nil {
						st.stack()[depth-1].Env[dest] = TupleV{[]Value{opaqueStr(r), IfaceV{}}}
					}
				},
				func(st *State) {
					if dest != nil {
						st.stack()[depth-1].Env[dest] = TupleV{[]Value{litStr(""), errV}}
					}
				})
		}
	}
	intrinsics["net/url.QueryUnescape"] = unescape(true)
	intrinsics["net/url.PathUnescape"] = unescape(false)

}

var _ ssa.Value
