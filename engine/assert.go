package main

import (
	"fmt"
	"strings"
)

// recordAssert discharges one obligation on the current path: PC ∧ ¬cond must be unsat.
func (w *Worker) recordAssert(s *State, label, cond, note string) {
	e := w.E
	res := AssertRes{Harness: e.Harness, Label: label}
	if cond == "true" {
		res.Res = "unsat"
		res.Nontrivial = false
		e.mu.Lock()
		e.Results = append(e.Results, res)
		e.mu.Unlock()
		return
	}
	neg := tNot(cond)
	res.Nontrivial = true
	// Once a label has a confirmed counterexample the check fails anyway: further instances
	// are decided on the abstraction only (cheap) and carry no model. Likewise a label the
	// precise solver could not decide is not retried on every path.
	e.mu.Lock()
	confirmed := e.cexCount[label]
	e.mu.Unlock()
	if confirmed >= cexPerLabel {
		if w.S.Feasible(s.Decls, s.PC, neg) {
			res.Res = "sat"
		} else {
			res.Res = "unsat"
		}
		e.mu.Lock()
		e.Results = append(e.Results, res)
		e.mu.Unlock()
		return
	}
	pq0 := w.S.PrecQ
	r, _ := w.S.Check(s.Decls, s.PC, []string{neg}, nil)
	if w.S.PrecQ > pq0 {
		e.mu.Lock()
		e.PrecByLabel[label+" => "+r]++
		e.mu.Unlock()
	}
	res.Res = r
	if r == "sat" {
		res.Cex = w.buildCex(s, label, neg, note)
		e.mu.Lock()
		e.cexCount[label]++
		e.mu.Unlock()
	}
	e.mu.Lock()
	e.Results = append(e.Results, res)
	e.mu.Unlock()
}

// buildCex extracts a model. It first asks for a "replay friendly" one: all clock
// reads equal and every other instant either the zero time, equal to now, or at
// least 10 s away from it, so that the native replay does not race the wall clock.
func (w *Worker) buildCex(s *State, label, neg, note string) *Cex {
	e := w.E
	var terms []string
	for _, n := range s.Nondet {
		if n.Kind == "chars" {
			terms = append(terms, n.Aux...)
		} else if n.Kind != "choice" && n.Kind != "label" {
			terms = append(terms, n.Term)
		}
	}
	for _, u := range s.UF {
		terms = append(terms, u.Args...)
		terms = append(terms, u.Res)
	}
	var nows, times []string
	for _, n := range s.Nondet {
		if n.Kind == "now" {
			nows = append(nows, n.Term)
		} else if n.Kind == "time" {
			times = append(times, n.Term)
		}
	}
	shaped := false
	var vals map[string]string
	{
		var shape []string
		if len(nows) > 0 {
			for _, n := range nows[1:] {
				shape = append(shape, tEq(n, nows[0]))
			}
			for _, t := range times {
				shape = append(shape, "(or (= "+t+" "+zeroTime+") (>= (- "+t+" "+nows[0]+") 10000000000) (>= (- "+nows[0]+" "+t+") 10000000000))")
			}
		}
		// durations: zero or at least 10 s, so that the real clock's progress during the replay does not matter
		for _, n := range s.Nondet {
			if n.Kind == "dur" && len(nows) > 0 {
				shape = append(shape, "(or (= "+n.Term+" 0) (>= "+n.Term+" 10000000000) (<= "+n.Term+" (- 10000000000)))")
			}
		}
		// prefer small integers (no reliance on wrap-around) when such a model exists
		var small []string
		for _, n := range s.Nondet {
			if n.Kind == "int" {
				small = append(small, "(and (<= (- 1099511627776) "+n.Term+") (<= "+n.Term+" 1099511627776))")
			}
		}
		var nowsEq []string
		if len(nows) > 1 {
			for _, n := range nows[1:] {
				nowsEq = append(nowsEq, tEq(n, nows[0]))
			}
		}
		// third choice: instants at multiples of half a second from now (sub-second windows are hit in the middle)
		half := append([]string(nil), nowsEq...)
		if len(nows) > 0 {
			for _, t := range times {
				half = append(half, "(or (= "+t+" "+zeroTime+") (= (mod (- "+t+" "+nows[0]+") 500000000) 0))")
			}
		}
		// strings: printable ASCII (survives JSON, cookies and URLs unchanged natively) and
		// case-mapping applications that are the identity (the UF over-approximates ToLower/ToUpper)
		var strShape []string
		for _, n := range s.Nondet {
			if n.Kind == "string" {
				strShape = append(strShape, "(str.in_re "+n.Term+" (re.* (re.range \" \" \"~\")))")
			}
		}
		for _, u := range s.UF {
			if (u.Name == "strings.ToLower" || u.Name == "strings.ToUpper" || u.Name == "strings.TrimSpace") && len(u.Args) == 1 {
				strShape = append(strShape, tEq(u.Res, u.Args[0]))
			}
			if (u.Name == "url.queryunescape" || u.Name == "url.pathunescape") && len(u.Args) == 1 {
				strShape = append(strShape, "(not (str.contains "+u.Args[0]+" \"%\"))") // escapes are uninterpreted: avoid them
			}
			if u.Name == "regex.replace" && len(u.Args) == 3 {
				strShape = append(strShape, tEq(u.Res, u.Args[1])) // nothing matched
			}
		}
		cat := func(parts ...[]string) []string {
			out := []string{neg}
			for _, p := range parts {
				out = append(out, p...)
			}
			return out
		}
		// first choice of all: instants additionally half a second off the whole seconds relative to
		// now, so that deadlines derived from them with whole-second constants never coincide with
		// the clock reading (a model on such a boundary flips natively as real time advances)
		var offHalf []string
		if len(nows) > 0 {
			for _, t := range times {
				offHalf = append(offHalf, "(or (= "+t+" "+zeroTime+") (= (mod (- "+t+" "+nows[0]+") 1000000000) 500000000))")
			}
		}
		tiers := [][]string{cat(shape, small), cat(shape), cat(half), cat(nowsEq)}
		if len(strShape) > 0 {
			tiers = append([][]string{cat(shape, small, strShape), cat(shape, strShape)}, tiers...)
		}
		if len(offHalf) > 0 {
			tiers = append([][]string{cat(shape, small, strShape, offHalf), cat(shape, strShape, offHalf)}, tiers...)
		}
		// a short attempt per tier first; when the solver did not answer in time (a loaded machine)
		// the tiers are tried once more with a long timeout before an unshaped model is accepted
		for _, to := range []int{4000, 45000} {
			timedOut := false
			for _, tier := range tiers {
				if len(tier) == 1 {
					continue
				}
				r, v := w.S.CheckPreciseTO(s.Decls, s.PC, tier, terms, to)
				if r == "sat" {
					vals, shaped = v, len(shape) > 0 || len(nows) == 0
					break
				}
				if r != "unsat" {
					timedOut = true
				}
			}
			if vals != nil || !timedOut {
				break
			}
		}
	}
	if vals == nil {
		r, v := w.S.Check(s.Decls, s.PC, []string{neg}, terms)
		if r != "sat" {
			return &Cex{Harness: e.Harness, Label: label, Trace: append(append([]string(nil), s.Trace...), "model extraction failed: "+r)}
		}
		vals = v
	}
	cx := &Cex{Harness: e.Harness, Label: label, Values: map[string]interface{}{}, Shaped: shaped, Trace: append([]string(nil), s.Trace...), Bounds: pendingVars}
	if note != "" {
		cx.Trace = append(cx.Trace, note)
	}
	decode := func(term, kind string) interface{} {
		raw := vals[term]
		switch kind {
		case "int", "now", "dur":
			if n, ok := parseSMTInt(raw); ok {
				return n
			}
			return raw
		case "time":
			if strings.ReplaceAll(raw, " ", "") == strings.ReplaceAll(zeroTime, " ", "") {
				return "zero"
			}
			if n, ok := parseSMTInt(raw); ok {
				return n
			}
			return raw
		case "bool":
			return raw == "true"
		case "string":
			return parseSMTString(raw)
		}
		return raw
	}
	for _, n := range s.Nondet {
		switch n.Kind {
		case "label":
			cx.Values[n.Key] = n.Term
		case "choice":
			var k int64
			fmt.Sscan(n.Term, &k)
			cx.Values[n.Key] = k
		case "chars":
			bs := make([]byte, len(n.Aux))
			for i, c := range n.Aux {
				if v, ok := parseSMTInt(vals[c]); ok {
					bs[i] = byte(v)
				}
			}
			cx.Values[n.Key] = string(bs)
		default:
			cx.Values[n.Key] = decode(n.Term, n.Kind)
		}
	}
	if len(nows) > 0 {
		cx.Values["$now0"] = decode(nows[0], "int")
	}
	for _, u := range s.UF {
		app := CexUF{Name: u.Name}
		for i, a := range u.Args {
			app.Args = append(app.Args, decode(a, u.Kind[i]))
		}
		app.Result = decode(u.Res, u.RK)
		cx.UF = append(cx.UF, app)
		// natively a UF application is a draw "uf:name#k"
		cx.Values[s.ufKey(u, cx)] = app.Result
	}
	if len(s.PC) <= 60 {
		cx.PathCond = append([]string(nil), s.PC...)
	}
	return cx
}

// ufKey numbers the applications of one UF in path order ("uf:name#k").
func (s *State) ufKey(u UFApp, cx *Cex) string {
	k := 0
	for {
		key := fmt.Sprintf("uf:%s#%d", u.Name, k)
		if _, ok := cx.Values[key]; !ok {
			return key
		}
		k++
	}
}
