package main

func runSelftest(args []string) int { return 0 }
