package main

import (
	"encoding/json"
	"fmt"
	"os"
	"path/filepath"
	"strings"
	"time"
)

// selftest = translation validation: each program below is executed (a) symbolically from
// SSA - all inputs are concrete, so exactly one path with concrete observations results -
// and (b) natively; the observation lists must be identical. This validates the SSA
// interpreter and the environment models on the repository's own test inputs.
var selftestPrograms = [][2]string{
	{"github.com/buzzfeed/sso/internal/pkg/singleflight", "VerifSelftestGo"},
	{"github.com/buzzfeed/sso/internal/proxy", "VerifSelftestProxy"},
	{"github.com/buzzfeed/sso/internal/auth", "VerifSelftestAuth"},
	{"github.com/buzzfeed/sso/internal/auth/circuit", "VerifSelftestBreaker"},
	{"github.com/buzzfeed/sso/internal/proxy", "VerifSelftestMergo"},
}

func runSelftest(args []string) int {
	rc := 0
	out := filepath.Join(outRoot, "out", "selftest")
	os.MkdirAll(out, 0o755)
	for _, prog := range selftestPrograms {
		pkg, fn := prog[0], prog[1]
		l, err := loadProgram([]string{pkg}, nil)
		if err != nil {
			fmt.Println("selftest: FAIL load", pkg, err)
			return 1
		}
		// symbolic run
		sp := l.Pkgs[pkg]
		f := sp.Func(fn)
		if f == nil {
			fmt.Println("selftest: FAIL no program", fn)
			return 1
		}
		cfg := defaultCfg()
		cfg.Workers = 1
		e := NewEngine(l.Prog, cfg)
		e.Models = collectModels(l.Prog)
		e.RootPkg = sp
		iw := &Worker{E: e, S: e.Pool.New(cfg.TimeoutMs)}
		e.InitPackages(sp, iw)
		e.TraceOut = map[string][]string{}
		e.Run(f, fn)
		e.Pool.CloseAll()
		if e.Paths < 1 || len(e.Inconcl) > 0 || len(e.TraceOut) == 0 {
			fmt.Printf("selftest: FAIL %s: expected conclusive paths, got paths=%d ends=%v inconclusive=%v\n", fn, e.Paths, e.Ends, e.Inconcl)
			rc = 1
			continue
		}
		// the inputs are concrete; where the symbolic clock still forks the run, every path must agree
		// a path whose condition is unsatisfiable for the precise solver (the abstraction kept it) is dropped
		var sym []string
		agree := true
		for k, t := range e.TraceOut {
			if len(t) > 0 && t[len(t)-1] == "$infeasible" {
				continue
			}
			if sym != nil && strings.Join(sym, "\x00") != strings.Join(t, "\x00") {
				agree = false
				fmt.Printf("selftest: FAIL %s: symbolic paths disagree (path %s)\n", fn, k)
				for i := range t {
					if i < len(sym) && sym[i] != t[i] {
						fmt.Printf("  %s | %s\n", sym[i], t[i])
					}
				}
				break
			}
			sym = t
		}
		if !agree || sym == nil {
			rc = 1
			continue
		}
		// native run
		cex := filepath.Join(out, fn+".json")
		b, _ := json.Marshal(map[string]interface{}{"harness": fn, "pkg": pkg, "label": "$observe", "values": map[string]interface{}{}})
		os.WriteFile(cex, b, 0o644)
		status, detail := replayCex(cex)
		if status != "observed" {
			fmt.Printf("selftest: FAIL %s: native run: %s %s\n", fn, status, detail)
			rc = 1
			continue
		}
		var nat []string
		json.Unmarshal([]byte(detail), &nat)
		if len(nat) != len(sym) {
			fmt.Printf("selftest: FAIL %s: %d native observations vs %d symbolic\n  native:   %v\n  symbolic: %v\n", fn, len(nat), len(sym), nat, sym)
			rc = 1
			continue
		}
		bad := 0
		for i := range nat {
			if nat[i] != sym[i] {
				fmt.Printf("selftest: MISMATCH %s #%d\n  native:   %s\n  symbolic: %s\n", fn, i, nat[i], sym[i])
				bad++
			}
		}
		if bad > 0 {
			rc = 1
			continue
		}
		fmt.Printf("selftest: ok %s (%d observations agree between the SSA executor and the native build)\n", fn, len(nat))
	}
	_ = strings.Join
	_ = time.Now
	return rc
}
