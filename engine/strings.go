package main

import (
	"fmt"
	"strconv"
	"strings"
)

func strLen(a StrV) IntV {
	switch a.K {
	case SLit:
		return mkInt(int64(len(a.S)))
	case SChars:
		return mkInt(int64(len(a.C)))
	}
	// the length of a concatenation is the sum over its pieces (one canonical term, so that
	// len(s) and the executor's own bounds arithmetic agree under the string abstraction)
	if leaves := flattenConcat(a.T); len(leaves) > 1 {
		parts := make([]string, 0, len(leaves))
		lit := 0
		for _, l := range leaves {
			lv := opaqueStr(l)
			if lv.K == SLit {
				lit += len(lv.S)
				continue
			}
			parts = append(parts, "(str.len "+l+")")
		}
		if lit > 0 {
			parts = append(parts, strconv.Itoa(lit))
		}
		if len(parts) == 1 {
			return symInt(parts[0])
		}
		return symInt("(+ " + strings.Join(parts, " ") + ")")
	}
	return symInt("(str.len " + a.T + ")")
}

func charsEq(a, b []string) string {
	if len(a) != len(b) {
		return "false"
	}
	cs := make([]string, len(a))
	for i := range a {
		cs[i] = charEq(a[i], b[i])
	}
	return tAnd(cs...)
}

func isNumLit(t string) bool {
	if t == "" {
		return false
	}
	for i := 0; i < len(t); i++ {
		if t[i] < '0' || t[i] > '9' {
			return false
		}
	}
	return true
}

func charEq(a, b string) string {
	if a == b {
		return "true"
	}
	if isNumLit(a) && isNumLit(b) {
		return "false"
	}
	return "(= " + a + " " + b + ")"
}

func strEq(a, b StrV) string {
	if a.K == SLit && b.K == SLit {
		return fmt.Sprint(a.S == b.S)
	}
	ac, aok := a.chars()
	bc, bok := b.chars()
	if aok && bok {
		return charsEq(ac, bc)
	}
	// opaque vs literal: known prefix / minimum length may decide it
	if a.K == SLit {
		a, b = b, a
	}
	if a.K == SOpaque && b.K == SLit {
		if a.Min > len(b.S) {
			return "false"
		}
		n := len(a.Pre)
		if n > len(b.S) {
			n = len(b.S)
		}
		if a.Pre[:n] != b.S[:n] {
			return "false"
		}
	}
	if a.K == SOpaque && b.K == SOpaque {
		if r, ok := concatEq(a.T, b.T); ok {
			return r
		}
	}
	return tEq(a.term(), b.term())
}

// concatEq simplifies equality of two concatenations that start with literal pieces: different
// literal prefixes make them unequal, equal ones are cancelled.
func concatEq(a, b string) (string, bool) {
	la, lb := flattenConcat(a), flattenConcat(b)
	if len(la) < 2 && len(lb) < 2 {
		return "", false
	}
	for len(la) > 0 && len(lb) > 0 && strings.HasPrefix(la[0], "\"") && strings.HasPrefix(lb[0], "\"") {
		sa, sb := parseSMTString(la[0]), parseSMTString(lb[0])
		switch {
		case sa == sb:
			la, lb = la[1:], lb[1:]
		case strings.HasPrefix(sa, sb):
			la = append([]string{smtStrLit(sa[len(sb):])}, la[1:]...)
			lb = lb[1:]
		case strings.HasPrefix(sb, sa):
			lb = append([]string{smtStrLit(sb[len(sa):])}, lb[1:]...)
			la = la[1:]
		default:
			return "false", true
		}
	}
	join := func(l []string) string {
		switch len(l) {
		case 0:
			return `""`
		case 1:
			return l[0]
		}
		return "(str.++ " + strings.Join(l, " ") + ")"
	}
	return tEq(join(la), join(lb)), true
}

func strConcat(a, b StrV) StrV {
	if a.K == SLit && a.S == "" {
		return b
	}
	if b.K == SLit && b.S == "" {
		return a
	}
	if a.K == SLit && b.K == SLit {
		return litStr(a.S + b.S)
	}
	ac, aok := a.chars()
	bc, bok := b.chars()
	if aok && bok {
		return StrV{K: SChars, C: append(append([]string(nil), ac...), bc...)}
	}
	r := opaqueStr("(str.++ " + a.term() + " " + b.term() + ")")
	switch {
	case a.K == SLit:
		r.Pre = a.S
		if b.K == SOpaque {
			r.Pre += b.Pre
		}
	case a.K == SOpaque:
		r.Pre = a.Pre
	}
	r.Min = minLen(a) + minLen(b)
	return r
}

func minLen(a StrV) int {
	switch a.K {
	case SLit:
		return len(a.S)
	case SChars:
		return len(a.C)
	}
	if a.Min > len(a.Pre) {
		return a.Min
	}
	return len(a.Pre)
}

func strConcatN(parts ...StrV) StrV {
	r := litStr("")
	for _, p := range parts {
		r = strConcat(r, p)
	}
	return r
}

func strLess(a, b StrV) string {
	if a.K == SLit && b.K == SLit {
		return fmt.Sprint(a.S < b.S)
	}
	ac, aok := a.chars()
	bc, bok := b.chars()
	if aok && bok {
		// lexicographic over bytes
		res := fmt.Sprint(len(ac) < len(bc))
		n := len(ac)
		if len(bc) < n {
			n = len(bc)
		}
		for i := n - 1; i >= 0; i-- {
			res = tIte("(< "+ac[i]+" "+bc[i]+")", "true", tIte(charEq(ac[i], bc[i]), res, "false"))
		}
		return res
	}
	return "(str.< " + a.term() + " " + b.term() + ")"
}

func strSlice(a StrV, lo, hi int) StrV {
	switch a.K {
	case SLit:
		if hi < 0 {
			hi = len(a.S)
		}
		if lo < 0 || hi > len(a.S) || lo > hi {
			panic(goPanic{"slice bounds out of range (string)"})
		}
		return litStr(a.S[lo:hi])
	case SChars:
		if hi < 0 {
			hi = len(a.C)
		}
		if lo < 0 || hi > len(a.C) || lo > hi {
			panic(goPanic{"slice bounds out of range (string)"})
		}
		return StrV{K: SChars, C: a.C[lo:hi]}
	}
	panic(engineErr("slicing an opaque string"))
}

func strIndex(a StrV, i int) Value {
	switch a.K {
	case SLit:
		if i < 0 || i >= len(a.S) {
			panic(goPanic{"index out of range (string)"})
		}
		return mkInt(int64(a.S[i]))
	case SChars:
		if i < 0 || i >= len(a.C) {
			panic(goPanic{"index out of range (string)"})
		}
		return charInt(a.C[i])
	}
	panic(engineErr("indexing an opaque string"))
}

func strHasPrefix(a, p StrV) string {
	if a.K == SLit && p.K == SLit {
		return fmt.Sprint(strings.HasPrefix(a.S, p.S))
	}
	ac, aok := a.chars()
	pc, pok := p.chars()
	if aok && pok {
		if len(pc) > len(ac) {
			return "false"
		}
		return charsEq(ac[:len(pc)], pc)
	}
	if p.K == SLit && p.S == "" {
		return "true"
	}
	if a.K == SOpaque && p.K == SLit {
		if len(a.Pre) >= len(p.S) {
			return fmt.Sprint(strings.HasPrefix(a.Pre, p.S))
		}
		if !strings.HasPrefix(p.S, a.Pre) {
			return "false"
		}
	}
	return "(str.prefixof " + p.term() + " " + a.term() + ")"
}

func strHasSuffix(a, p StrV) string {
	if a.K == SLit && p.K == SLit {
		return fmt.Sprint(strings.HasSuffix(a.S, p.S))
	}
	ac, aok := a.chars()
	pc, pok := p.chars()
	if aok && pok {
		if len(pc) > len(ac) {
			return "false"
		}
		return charsEq(ac[len(ac)-len(pc):], pc)
	}
	if p.K == SLit && p.S == "" {
		return "true"
	}
	return "(str.suffixof " + p.term() + " " + a.term() + ")"
}

func strContains(a, p StrV) string {
	if a.K == SLit && p.K == SLit {
		return fmt.Sprint(strings.Contains(a.S, p.S))
	}
	ac, aok := a.chars()
	pc, pok := p.chars()
	if aok && pok {
		var alts []string
		for i := 0; i+len(pc) <= len(ac); i++ {
			alts = append(alts, charsEq(ac[i:i+len(pc)], pc))
		}
		return tOr(alts...)
	}
	return "(str.contains " + a.term() + " " + p.term() + ")"
}

func toLowerChar(c string) string {
	if isNumLit(c) {
		var n int
		fmt.Sscan(c, &n)
		if n >= 'A' && n <= 'Z' {
			n += 32
		}
		return fmt.Sprint(n)
	}
	return "(ite (and (<= 65 " + c + ") (<= " + c + " 90)) (+ " + c + " 32) " + c + ")"
}

func toUpperChar(c string) string {
	if isNumLit(c) {
		var n int
		fmt.Sscan(c, &n)
		if n >= 'a' && n <= 'z' {
			n -= 32
		}
		return fmt.Sprint(n)
	}
	return "(ite (and (<= 97 " + c + ") (<= " + c + " 122)) (- " + c + " 32) " + c + ")"
}

// parseSMTString decodes an SMT-LIB string literal as printed by z3/cvc5 into Go bytes
// (code points above 255 are kept as UTF-8).
func parseSMTString(lit string) string {
	lit = strings.TrimSpace(lit)
	if len(lit) < 2 || lit[0] != '"' {
		return lit
	}
	lit = lit[1 : len(lit)-1]
	var b strings.Builder
	for i := 0; i < len(lit); i++ {
		c := lit[i]
		if c == '"' && i+1 < len(lit) && lit[i+1] == '"' {
			b.WriteByte('"')
			i++
			continue
		}
		if c == '\\' && i+1 < len(lit) && lit[i+1] == 'u' {
			// \u{X..} or \uXXXX
			j := i + 2
			var hex string
			if j < len(lit) && lit[j] == '{' {
				k := strings.IndexByte(lit[j:], '}')
				if k > 0 {
					hex = lit[j+1 : j+k]
					i = j + k
				}
			} else if j+4 <= len(lit) {
				hex = lit[j : j+4]
				i = j + 3
			}
			if hex != "" {
				var n int
				fmt.Sscanf(hex, "%x", &n)
				if n < 256 {
					b.WriteByte(byte(n))
				} else {
					b.WriteRune(rune(n))
				}
				continue
			}
		}
		if c == '\\' && i+1 < len(lit) && lit[i+1] == 'x' && i+3 < len(lit) {
			var n int
			fmt.Sscanf(lit[i+2:i+4], "%x", &n)
			b.WriteByte(byte(n))
			i += 3
			continue
		}
		b.WriteByte(c)
	}
	return b.String()
}

// parseSMTInt decodes "5" or "(- 5)".
func parseSMTInt(t string) (int64, bool) {
	t = strings.TrimSpace(t)
	neg := false
	if strings.HasPrefix(t, "(-") {
		neg = true
		t = strings.TrimSpace(strings.TrimSuffix(strings.TrimPrefix(t, "(-"), ")"))
	}
	var n int64
	var u uint64
	if _, err := fmt.Sscanf(t, "%d", &u); err != nil {
		return 0, false
	}
	if neg {
		n = -int64(u)
	} else {
		n = int64(u)
	}
	return n, true
}

// flattenConcat splits an SMT string term into the leaves of its (nested) str.++ structure.
func flattenConcat(t string) []string {
	t = strings.TrimSpace(t)
	if strings.HasPrefix(t, "(str.++ ") && matchParen(t, 0) == len(t)-1 {
		var out []string
		for _, a := range splitArgs(t[len("(str.++ ") : len(t)-1]) {
			out = append(out, flattenConcat(a)...)
		}
		return out
	}
	return []string{t}
}
