package main

import (
	"encoding/base64"
	"strings"
)

// encoding/base64: EncodeToString is an uninterpreted injective function enc(bytes);
// DecodeString(s) succeeds with b iff s == enc(b) for the canonical spelling. The
// non-canonical spellings Go's non-strict decoder also accepts are the subject of the
// C02 harness, which models them explicitly; here decode(s) = dec(s) with dec(enc(b)) = b.

func (w *Worker) bytesAsStr(s *State, v Value) StrV {
	sl := v.(SliceV)
	if sl.Obj == 0 {
		return litStr("")
	}
	return w.stringOfBytes(s, sl).(StrV)
}

func init() {
	I := intrinsics
	encOf := func(c *icall) *base64.Encoding {
		if p, ok := c.args[0].(PtrV); ok && p.Obj != 0 {
			if o, ok := c.s.Heap[p.Obj].(OpaqueObj); ok {
				switch {
				case strings.HasSuffix(o.ID, "RawURLEncoding"):
					return base64.RawURLEncoding
				case strings.HasSuffix(o.ID, "RawStdEncoding"):
					return base64.RawStdEncoding
				case strings.HasSuffix(o.ID, "URLEncoding"):
					return base64.URLEncoding
				case strings.HasSuffix(o.ID, "StdEncoding"):
					return base64.StdEncoding
				}
			}
		}
		return nil
	}
	enc := func(c *icall) ([]*State, bool) {
		b := c.w.bytesAsStr(c.s, c.args[1])
		if e := encOf(c); e != nil && b.K == SLit {
			c.set(litStr(e.EncodeToString([]byte(b.S))))
			return nil, false
		}
		e := c.w.applyUF(c.s, "b64enc", []Value{b}, "String", "string")
		// dec(enc(b)) = b
		d := c.w.applyUF(c.s, "b64dec", []Value{opaqueStr(e)}, "String", "string")
		ok := c.w.applyUF(c.s, "b64ok", []Value{opaqueStr(e)}, "Bool", "bool")
		c.s.addPC(tEq(d, b.term()))
		c.s.addPC(ok)
		c.s.addPC(tEq(tEq(e, `""`), tEq(b.term(), `""`))) // empty iff the input is empty
		if enc := encOf(c); enc == base64.URLEncoding || enc == base64.StdEncoding {
			c.s.addPC("(= (mod (str.len " + e + ") 4) 0)") // padded encodings
		}
		if c.s.B64 == nil {
			c.s.B64 = map[string]StrV{}
		}
		c.s.B64[e] = b
		c.set(opaqueStr(e))
		return nil, false
	}
	dec := func(c *icall) ([]*State, bool) {
		sv := c.str(1)
		if e := encOf(c); e != nil && sv.K == SLit {
			b, err := e.DecodeString(sv.S)
			if err != nil {
				c.setTuple(SliceV{}, c.opaqueErr(litStr(err.Error())))
			} else {
				c.setTuple(c.w.bytesOfString(c.s, litStr(string(b))), IfaceV{})
			}
			return nil, false
		}
		if orig, hit := c.s.B64[sv.term()]; hit && sv.K == SOpaque {
			// decoding what was encoded on this path gives back the very same bytes
			c.setTuple(c.w.bytesOfString(c.s, orig), IfaceV{})
			return nil, false
		}
		ok := c.w.applyUF(c.s, "b64ok", []Value{sv}, "Bool", "bool")
		d := c.w.applyUF(c.s, "b64dec", []Value{sv}, "String", "string")
		depth := len(c.s.stack())
		dest := c.dest
		e := c.opaqueErr(litStr("illegal base64 data"))
		return c.w.branch(c.s, ok,
			func(st *State) {
				if dest != nil {
					st.stack()[depth-1].Env[dest] = TupleV{[]Value{c.w.bytesOfString(st, opaqueStr(d)), IfaceV{}}}
				}
			},
			func(st *State) {
				if dest != nil {
					st.stack()[depth-1].Env[dest] = TupleV{[]Value{SliceV{}, e}}
				}
			})
	}
	I["(*encoding/base64.Encoding).EncodeToString"] = enc
	I["(*encoding/base64.Encoding).DecodeString"] = dec
}
