package main

import (
	"encoding/base64"
	"strings"
)

// encoding/base64: EncodeToString is an uninterpreted injective function enc(bytes);
// DecodeString(s) succeeds with b iff s == enc(b) for the canonical spelling. The
// non-canonical spellings Go's non-strict decoder also accepts are the subject of the
// C02 harness, which models them explicitly; here decode(s) = dec(s) with dec(enc(b)) = b.

func (w *Worker) bytesAsStr(s *State, v Value) StrV {
	sl := v.(SliceV)
	if sl.Obj == 0 {
		return litStr("")
	}
	return w.stringOfBytes(s, sl).(StrV)
}

func init() {
	I := intrinsics
	isStrict := func(c *icall) bool {
		if p, ok := c.args[0].(PtrV); ok && p.Obj != 0 {
			if o, ok := c.s.Heap[p.Obj].(OpaqueObj); ok {
				return strings.HasSuffix(o.ID, ".Strict")
			}
		}
		return false
	}
	encOf := func(c *icall) *base64.Encoding {
		if p, ok := c.args[0].(PtrV); ok && p.Obj != 0 {
			if o, ok := c.s.Heap[p.Obj].(OpaqueObj); ok {
				strict := strings.HasSuffix(o.ID, ".Strict")
				o.ID = strings.TrimSuffix(o.ID, ".Strict")
				pick := func(e *base64.Encoding) *base64.Encoding {
					if strict {
						return e.Strict()
					}
					return e
				}
				switch {
				case strings.HasSuffix(o.ID, "RawURLEncoding"):
					return pick(base64.RawURLEncoding)
				case strings.HasSuffix(o.ID, "RawStdEncoding"):
					return pick(base64.RawStdEncoding)
				case strings.HasSuffix(o.ID, "URLEncoding"):
					return pick(base64.URLEncoding)
				case strings.HasSuffix(o.ID, "StdEncoding"):
					return pick(base64.StdEncoding)
				}
				switch {
				case strings.HasSuffix(o.ID, "RawURLEncoding"):
					return base64.RawURLEncoding
				case strings.HasSuffix(o.ID, "RawStdEncoding"):
					return base64.RawStdEncoding
				case strings.HasSuffix(o.ID, "URLEncoding"):
					return base64.URLEncoding
				case strings.HasSuffix(o.ID, "StdEncoding"):
					return base64.StdEncoding
				}
			}
		}
		return nil
	}
	enc := func(c *icall) ([]*State, bool) {
		b := c.w.bytesAsStr(c.s, c.args[1])
		if e := encOf(c); e != nil && b.K == SLit {
			c.set(litStr(e.EncodeToString([]byte(b.S))))
			return nil, false
		}
		e := c.w.applyUF(c.s, "b64enc", []Value{b}, "String", "string")
		// dec(enc(b)) = b
		d := c.w.applyUF(c.s, "b64dec", []Value{opaqueStr(e)}, "String", "string")
		ok := c.w.applyUF(c.s, "b64ok", []Value{opaqueStr(e)}, "Bool", "bool")
		c.s.addPC(tEq(d, b.term()))
		c.s.addPC(ok)
		c.s.addPC(tEq(tEq(e, `""`), tEq(b.term(), `""`))) // empty iff the input is empty
		// the alphabet has no CR or LF
		c.s.addPC(tNot(strContains(opaqueStr(e), litStr("\n"))))
		c.s.addPC(tNot(strContains(opaqueStr(e), litStr("\r"))))
		if p, ok := c.args[0].(PtrV); ok && p.Obj != 0 && func() bool {
			o, ok := c.s.Heap[p.Obj].(OpaqueObj)
			id := strings.TrimSuffix(o.ID, ".Strict")
			return ok && !strings.HasSuffix(id, "RawURLEncoding") && !strings.HasSuffix(id, "RawStdEncoding")
		}() {
			c.s.addPC("(= (mod (str.len " + e + ") 4) 0)") // padded encodings
		}
		if c.s.B64 == nil {
			c.s.B64 = map[string]StrV{}
		}
		c.s.B64[e] = b
		c.set(opaqueStr(e))
		return nil, false
	}
	dec := func(c *icall) ([]*State, bool) {
		sv := c.str(1)
		if e := encOf(c); e != nil && sv.K == SLit {
			b, err := e.DecodeString(sv.S)
			if err != nil {
				c.setTuple(SliceV{}, c.opaqueErr(litStr(err.Error())))
			} else {
				c.setTuple(c.w.bytesOfString(c.s, litStr(string(b))), IfaceV{})
			}
			return nil, false
		}
		// "\r" and "\n" are ignored by the decoder (documented; also in Strict mode): literal
		// CR/LF pieces of a concatenation are dropped before the lookup
		if sv.K == SOpaque {
			leaves := flattenConcat(sv.T)
			if len(leaves) > 1 {
				kept := litStr("")
				dropped := false
				for _, l := range leaves {
					lv := opaqueStr(l)
					if lv.K == SLit && strings.Trim(lv.S, "\r\n") == "" {
						dropped = true
						continue
					}
					kept = strConcat(kept, lv)
				}
				if dropped {
					sv = kept
				}
			}
		}
		if sv.K == SOpaque {
			if of, isVar := c.s.B64Var[sv.T]; isVar {
				// the same text with other spare bits in its last character: a Strict decoder
				// refuses it, the default decoder ignores the spare bits
				if isStrict(c) {
					c.setTuple(SliceV{}, c.opaqueErr(litStr("illegal base64 data (non-zero trailing bits)")))
					return nil, false
				}
				sv = opaqueStr(of)
			}
		}
		if orig, hit := c.s.B64[sv.term()]; hit && sv.K == SOpaque {
			// decoding what was encoded on this path gives back the very same bytes
			c.setTuple(c.w.bytesOfString(c.s, orig), IfaceV{})
			return nil, false
		}
		ok := c.w.applyUF(c.s, "b64ok", []Value{sv}, "Bool", "bool")
		d := c.w.applyUF(c.s, "b64dec", []Value{sv}, "String", "string")
		if isStrict(c) {
			// a Strict decoder accepts, among strings without CR/LF, only the canonical spelling:
			// ok => contains CR or LF, or enc(dec(s)) = s. (The non-strict decoder also accepts
			// spellings with non-zero trailing bits: no such axiom.)
			e := c.w.applyUF(c.s, "b64enc", []Value{opaqueStr(d)}, "String", "string")
			c.s.addPC(tImp(ok, tOr(strContains(sv, litStr("\n")), strContains(sv, litStr("\r")), tEq(e, sv.term()))))
		}
		depth := len(c.s.stack())
		dest := c.dest
		e := c.opaqueErr(litStr("illegal base64 data"))
		return c.w.branch(c.s, ok,
			func(st *State) {
				if dest != nil {
					st.stack()[depth-1].Env[dest] = TupleV{[]Value{c.w.bytesOfString(st, opaqueStr(d)), IfaceV{}}}
				}
			},
			func(st *State) {
				if dest != nil {
					st.stack()[depth-1].Env[dest] = TupleV{[]Value{SliceV{}, e}}
				}
			})
	}
	intrinsics["github.com/buzzfeed/sso/internal/zzverif.B64SpareBitsVariant"] = func(c *icall) ([]*State, bool) {
		v := c.str(0)
		if v.K != SOpaque {
			panic(engineErr("B64SpareBitsVariant of something that is not an encoded text"))
		}
		if _, ok := c.s.B64[v.T]; !ok {
			panic(engineErr("B64SpareBitsVariant of something that is not an encoded text"))
		}
		nv := c.w.E.freshVar(c.s, "b64variant", "String")
		c.s.addPC(tNot(tEq(nv, v.T)))
		c.s.addPC(tEq("(str.len "+nv+")", strLen(v).T))
		c.s.addPC(tNot(tEq(nv, `""`)))
		c.s.addPC(tNot(strContains(opaqueStr(nv), litStr("\n"))))
		c.s.addPC(tNot(strContains(opaqueStr(nv), litStr("\r"))))
		if c.s.B64Var == nil {
			c.s.B64Var = map[string]string{}
		}
		c.s.B64Var[nv] = v.T
		out := opaqueStr(nv)
		out.Min = 1
		c.set(out)
		return nil, false
	}
	I["(encoding/base64.Encoding).Strict"] = func(c *icall) ([]*State, bool) {
		o, ok := c.args[0].(OpaqueObj)
		if !ok {
			panic(engineErr("Strict() of an unknown base64 encoding"))
		}
		if !strings.HasSuffix(o.ID, ".Strict") {
			o.ID += ".Strict"
		}
		c.set(c.s.alloc(o))
		return nil, false
	}
	I["(*encoding/base64.Encoding).EncodeToString"] = enc
	I["(*encoding/base64.Encoding).DecodeString"] = dec
}
