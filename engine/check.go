package main

import (
	"encoding/json"
	"flag"
	"fmt"
	"os"
	"path/filepath"
	"sort"
	"strconv"
	"strings"
	"sync/atomic"
	"time"
)

type HarnessSpec struct {
	Pkg       string         `json:"pkg"`
	Func      string         `json:"func"`
	Tier      string         `json:"tier,omitempty"` // "" = both tiers, "quick" / "thorough" = only that tier
	Reach     []string       `json:"reach,omitempty"`
	Vars      map[string]int `json:"vars,omitempty"`          // package-level int variables of the harness package (bounds)
	VarsT     map[string]int `json:"vars_thorough,omitempty"` // overrides in the thorough tier
	Unwind    int            `json:"unwind,omitempty"`
	HavocLen  int            `json:"havoc_len,omitempty"`
	HavocLenT int            `json:"havoc_len_thorough,omitempty"` // length bound of havocked slices in the thorough tier
	What      string         `json:"what,omitempty"`
	Precise   string         `json:"precise_solver,omitempty"` // overrides the property's precise solver for this harness
}

type PropSpec struct {
	ID          string        `json:"id"`
	Harnesses   []HarnessSpec `json:"harnesses"`
	Explanation string        `json:"explanation"`
	Assumptions []string      `json:"assumptions"`
	Bounds      []string      `json:"bounds"`
	Outside     []string      `json:"outside"`
	TimeoutMs   int           `json:"solver_timeout_ms,omitempty"`
	Precise     string        `json:"precise_solver,omitempty"`
	CexPerLabel int           `json:"cex_per_label,omitempty"`
}

type KnownFinding struct {
	Property string `json:"property"`
	Harness  string `json:"harness"`
	Label    string `json:"label"`
	What     string `json:"what"`
}

type KnownFile struct {
	Findings []KnownFinding `json:"findings"`
	Fixed    []string       `json:"fixed"`
}

func loadSpec(id string) (*PropSpec, error) {
	b, err := os.ReadFile(filepath.Join(verifDir, "props", id+".json"))
	if err != nil {
		return nil, err
	}
	var p PropSpec
	if err := json.Unmarshal(b, &p); err != nil {
		return nil, fmt.Errorf("props/%s.json: %v", id, err)
	}
	return &p, nil
}

func loadKnown() KnownFile {
	var k KnownFile
	b, err := os.ReadFile(filepath.Join(verifDir, "known_findings.json"))
	if err == nil {
		json.Unmarshal(b, &k)
	}
	return k
}

func cmdCheck(args []string) int {
	fs := flag.NewFlagSet("check", flag.ExitOnError)
	tier := fs.String("tier", "", "quick|thorough")
	noReplay := fs.Bool("no-replay", false, "do not replay counterexamples natively (development only; never prints VIOLATION)")
	verbose := fs.Bool("v", false, "")
	// allow "check C15 --tier quick"
	var id string
	if len(args) > 0 && !strings.HasPrefix(args[0], "-") {
		id, args = args[0], args[1:]
	}
	fs.Parse(args)
	if id == "" && fs.NArg() > 0 {
		id = fs.Arg(0)
	}
	if id == "" {
		usage()
	}
	if *tier == "" {
		*tier = os.Getenv("VERIF_TIER")
	}
	if *tier == "" {
		*tier = "quick"
	}
	seed, _ := strconv.Atoi(os.Getenv("VERIF_SEED"))
	t0 := time.Now()
	spec, err := loadSpec(id)
	if err != nil {
		fmt.Println("INCONCLUSIVE", err)
		return 2
	}
	if spec.CexPerLabel > 0 {
		cexPerLabel = spec.CexPerLabel
	}
	if spec.Precise != "" && os.Getenv("VERIF_SOLVER") == "" {
		preciseBin = spec.Precise
	}
	outDir := filepath.Join(outRoot, "out", id)
	os.RemoveAll(outDir)
	os.MkdirAll(outDir, 0o755)

	var hs []HarnessSpec
	pkgSet := map[string]bool{}
	for _, h := range spec.Harnesses {
		if h.Tier != "" && h.Tier != *tier {
			continue
		}
		hs = append(hs, h)
		pkgSet[h.Pkg] = true
	}
	var pkgs []string
	for p := range pkgSet {
		pkgs = append(pkgs, p)
	}
	sort.Strings(pkgs)
	ev := newEvidence(spec, *tier, seed)
	l, err := loadProgram(pkgs, nil)
	if err != nil {
		fmt.Println("INCONCLUSIVE: " + err.Error())
		ev.Inconclusive = append(ev.Inconclusive, err.Error())
		ev.write(time.Since(t0).Seconds(), 0)
		return 2
	}
	known := loadKnown()
	rc := 0
	violations := 0
	cexN := 0
	// no harness of a registered check needs more than two minutes (quick) or five (thorough) on
	// the unchanged tree; a changed tree may make one explode, which must end the run, not hang it
	harnessBudget = 12 * time.Minute
	if *tier == "thorough" {
		harnessBudget = 40 * time.Minute
	}
	propPrecise := preciseBin
	for _, h := range hs {
		// the precise (string-theory) solver may be chosen per harness
		preciseBin = propPrecise
		if h.Precise != "" && os.Getenv("VERIF_SOLVER") == "" {
			preciseBin = h.Precise
		}
		cfg := defaultCfg()
		if spec.TimeoutMs > 0 {
			cfg.TimeoutMs = spec.TimeoutMs
		}
		if *tier == "thorough" && cfg.TimeoutMs < 120000 {
			cfg.TimeoutMs = 120000
		}
		if h.Unwind > 0 {
			cfg.Unwind = h.Unwind
		}
		vars := map[string]int{}
		for k, v := range h.Vars {
			vars[k] = v
		}
		if *tier == "thorough" {
			for k, v := range h.VarsT {
				vars[k] = v
			}
		}
		havocSliceLen = 2
		if h.HavocLen > 0 {
			havocSliceLen = h.HavocLen
		}
		if *tier == "thorough" && h.HavocLenT > 0 {
			havocSliceLen = h.HavocLenT
		}
		pendingVars = vars
		hr, err := runHarness(l, h.Pkg, h.Func, cfg, h.Reach)
		if err != nil {
			fmt.Println("INCONCLUSIVE: " + err.Error())
			ev.Inconclusive = append(ev.Inconclusive, err.Error())
			rc = 2
			continue
		}
		if *verbose {
			printHarness(hr, false)
		} else {
			fmt.Printf("harness %s: paths=%d obligations=%d discharged=%d violated=%d unknown=%d inconclusive-paths=%d queries=%d solver=%.1fs wall=%.1fs\n",
				hr.Name, hr.Paths, hr.Obligations, hr.Discharged, len(hr.Violations), len(hr.Unknown), hr.Ends["inconclusive"], hr.Queries, hr.SolverS, hr.WallS)
		}
		ev.add(h, hr, vars)
		for m, n := range hr.Inconcl {
			msg := fmt.Sprintf("%s: %s (x%d)", h.Func, m, n)
			fmt.Println("INCONCLUSIVE: " + msg)
			ev.Inconclusive = append(ev.Inconclusive, msg)
			rc = max(rc, 2)
		}
		for _, u := range hr.Unknown {
			msg := fmt.Sprintf("%s: assertion %q undecided: %s", h.Func, u.Label, u.Res)
			fmt.Println("INCONCLUSIVE: " + msg)
			ev.Inconclusive = append(ev.Inconclusive, msg)
			rc = max(rc, 2)
		}
		for _, r := range hr.MissingReach {
			msg := fmt.Sprintf("%s: reachability witness %q not reached (vacuous harness?)", h.Func, r)
			fmt.Println("INCONCLUSIVE: " + msg)
			ev.Inconclusive = append(ev.Inconclusive, msg)
			rc = max(rc, 2)
		}
		// distinct violated (harness,label) pairs: replay counterexamples of each until one reproduces
		byLabel := map[string][]AssertRes{}
		var order []string
		for _, v := range hr.Violations {
			if v.Cex == nil {
				continue
			}
			if _, ok := byLabel[v.Label]; !ok {
				order = append(order, v.Label)
			}
			byLabel[v.Label] = append(byLabel[v.Label], v)
		}
		replays := 0
		for _, label := range order {
			if replays >= 3 && rc == 1 {
				fmt.Printf("  also violated (not replayed, a violation of this harness already reproduced): harness=%s assertion=%q\n", h.Func, label)
				continue
			}
			replays++
			var kf *KnownFinding
			for i := range known.Findings {
				k := &known.Findings[i]
				if k.Property == id && k.Harness == h.Func && k.Label == label {
					kf = k
				}
			}
			status, detail, path := "not-reproduced", "", ""
			cands := byLabel[label]
			// schedule counterexamples: try first those in which a thread resumes from its
			// controllable yield point as late as possible (the others have progressed furthest) -
			// these are the interleavings the native scheduler can enforce
			sort.SliceStable(cands, func(a, b int) bool { return schedScore(cands[a].Cex) > schedScore(cands[b].Cex) })
			for _, v := range cands {
				cexN++
				v.Cex.Property = id
				v.Cex.Pkg = h.Pkg
				path = filepath.Join(outDir, fmt.Sprintf("cex-%d.json", cexN))
				b, _ := json.MarshalIndent(v.Cex, "", " ")
				os.WriteFile(path, b, 0o644)
				if *noReplay {
					status = "not-replayed"
					break
				}
				status, detail = replayCex(path)
				ev.Replays = append(ev.Replays, map[string]string{"harness": h.Func, "label": label, "status": status, "file": path})
				if status == "crashed" {
					// the real code died (unrecovered panic / runtime fatal error) when run natively with
					// the model's values: counted as a reproduction of the violation the solver found
					status = "reproduced"
					detail = "the real code crashed natively under this model: " + detail
					fmt.Printf("  native run of %s crashed: %s\n", path, detail)
				}
				if status == "reproduced" {
					break
				}
			}
			switch {
			case status == "not-replayed":
				fmt.Printf("CEX (not replayed) property=%s harness=%s label=%q file=%s\n", id, h.Func, label, path)
				rc = max(rc, 2)
			case status == "reproduced" && kf != nil:
				fmt.Printf("KNOWN-FINDING: property=%s %s [harness=%s label=%q replay=%s]\n", id, kf.What, h.Func, label, path)
				ev.Known = append(ev.Known, kf.What)
			case kf != nil:
				// a listed finding the solver re-derived; this run's models did not reproduce natively
				// (for schedule findings the native scheduler cannot enforce every interleaving)
				fmt.Printf("KNOWN-FINDING: property=%s %s [harness=%s label=%q solver-found; native replay of this run's models: %s]\n", id, kf.What, h.Func, label, status)
				ev.Known = append(ev.Known, kf.What+" (not replayed natively in this run)")
			case status == "reproduced":
				fmt.Printf("VIOLATION property=%s replay=%s\n", id, path)
				fmt.Printf("  harness=%s assertion=%q (reproduced natively against the real code)\n", h.Func, label)
				violations++
				rc = 1
			default:
				msg := fmt.Sprintf("%s: solver model for %q did not reproduce natively (%s): encoding/model mismatch, not reported as a violation. %s", h.Func, label, status, detail)
				fmt.Println("INCONCLUSIVE: " + msg)
				ev.Inconclusive = append(ev.Inconclusive, msg)
				if rc != 1 {
					rc = 2
				}
			}
		}
	}
	ev.write(time.Since(t0).Seconds(), violations)
	if violations > 0 {
		rc = 1 // a violation reproduced against the real code decides the run, whatever else stayed undecided
	}
	switch rc {
	case 0:
		fmt.Printf("OK property=%s tier=%s: all obligations discharged within the stated bounds (%.1fs)\n", id, *tier, time.Since(t0).Seconds())
	case 2:
		fmt.Printf("INCONCLUSIVE property=%s tier=%s (%.1fs)\n", id, *tier, time.Since(t0).Seconds())
	}
	return rc
}

var pendingVars map[string]int

// ---------- evidence ----------

type Evidence struct {
	spec         *PropSpec
	tier         string
	seed         int
	Harnesses    []map[string]interface{}
	Paths        int
	Nontrivial   int
	Obligations  int
	Discharged   int
	Queries      int
	SolverS      float64
	Samples      []interface{}
	Inconclusive []string
	Known        []string
	Replays      []map[string]string
	Functions    map[string]map[string]interface{}
	Models       map[string]int
}

func newEvidence(spec *PropSpec, tier string, seed int) *Evidence {
	return &Evidence{spec: spec, tier: tier, seed: seed, Functions: map[string]map[string]interface{}{}, Models: map[string]int{}}
}

func (ev *Evidence) add(h HarnessSpec, hr *HarnessResult, vars map[string]int) {
	ev.Paths += hr.Paths
	ev.Obligations += hr.Obligations
	ev.Discharged += hr.Discharged
	ev.Nontrivial += hr.Nontrivial
	ev.Queries += hr.Queries
	ev.SolverS += hr.SolverS
	byLabel := map[string]interface{}{}
	for l, c := range hr.ByLabel {
		byLabel[l] = map[string]int{"discharged": c[0], "not_discharged": c[1]}
	}
	ev.Harnesses = append(ev.Harnesses, map[string]interface{}{
		"harness": h.Func, "pkg": h.Pkg, "what": h.What, "bounds_vars": vars, "paths": hr.Paths, "path_ends": hr.Ends, "obligations": hr.Obligations,
		"discharged": hr.Discharged, "by_assertion": byLabel, "reach_witnesses": hr.Reached, "required_reach": h.Reach,
		"panic_paths": hr.Panics, "queries": hr.Queries, "query_cache_hits": hr.CacheHits, "solver_s": round2(hr.SolverS), "wall_s": round2(hr.WallS),
		"unwind_bound": func() int {
			if h.Unwind > 0 {
				return h.Unwind
			}
			return defaultCfg().Unwind
		}(),
	})
	for _, s := range hr.Samples {
		if len(ev.Samples) < 4 {
			ev.Samples = append(ev.Samples, map[string]string{"harness": h.Func, "path_condition": s})
		}
	}
	for _, f := range hr.Functions {
		n := f["func"].(string)
		if prev, ok := ev.Functions[n]; ok {
			prev["calls"] = prev["calls"].(int) + f["calls"].(int)
		} else {
			ev.Functions[n] = f
		}
	}
	for m, n := range hr.ModelsHit {
		ev.Models[m] += n
	}
}

func round2(f float64) float64 { return float64(int(f*100)) / 100 }

func (ev *Evidence) write(wall float64, violations int) {
	var fns []map[string]interface{}
	var names []string
	for n := range ev.Functions {
		names = append(names, n)
	}
	sort.Strings(names)
	for _, n := range names {
		fns = append(fns, ev.Functions[n])
	}
	samples := ev.Samples
	if len(samples) == 0 {
		samples = []interface{}{"no path completed"}
	}
	cov := map[string]interface{}{
		"explanation":            ev.spec.Explanation,
		"evaluations":            ev.Paths,
		"distinct_nontrivial":    ev.Nontrivial,
		"rule":                   "evaluations = symbolic execution paths of the real SSA explored to completion (each path covers every value of its solver variables); distinct_nontrivial = assertion instances on those paths whose negation was not syntactically false and was sent to the solver and found unsat (each is a distinct (path, assertion) pair)",
		"obligations":            ev.Obligations,
		"discharged":             ev.Discharged,
		"samples":                samples,
		"exhaustive":             len(ev.Inconclusive) == 0,
		"bounds":                 ev.spec.Bounds,
		"outside_claim":          ev.spec.Outside,
		"harnesses":              ev.Harnesses,
		"functions_encoded":      fns,
		"env_models_hit":         ev.Models,
		"solver":                 map[string]interface{}{"name": solverBin, "queries": ev.Queries, "solver_s": round2(ev.SolverS)},
		"inconclusive":           ev.Inconclusive,
		"known_findings_seen":    ev.Known,
		"counterexample_replays": ev.Replays,
		"encoding":               "regenerated from /repo working tree by go/packages+go/ssa on this run",
	}
	doc := map[string]interface{}{
		"property_id": ev.spec.ID, "tier": ev.tier, "seed": ev.seed, "level": "other", "coverage": cov,
		"assumptions": ev.spec.Assumptions, "wall_s": round2(wall), "violations": violations,
	}
	b, _ := json.MarshalIndent(doc, "", " ")
	os.MkdirAll(filepath.Join(outRoot, "evidence"), 0o755)
	os.WriteFile(filepath.Join(outRoot, "evidence", ev.spec.ID+".json"), b, 0o644)
}

// ---------- replay ----------

// replayCex runs the harness natively with the solver's model.
func replayCex(path string) (status, detail string) {
	if a, err := filepath.Abs(path); err == nil {
		path = a
	}
	b, err := os.ReadFile(path)
	if err != nil {
		return "error", err.Error()
	}
	var cx Cex
	if err := json.Unmarshal(b, &cx); err != nil {
		return "error", err.Error()
	}
	if cx.Pkg == "" || cx.Harness == "" {
		return "error", "cex file lacks pkg/harness"
	}
	rel := strings.TrimPrefix(cx.Pkg, "github.com/buzzfeed/sso/")
	pkgName := "main"
	if l, err := pkgNameOf(rel); err == nil {
		pkgName = l
	}
	gen := filepath.Join(outRoot, "out", "gen", rel)
	os.MkdirAll(gen, 0o755)
	testFile := filepath.Join(gen, "zz_verif_replay_test.go")
	zzImport, zzSel := "\n\tzz \"github.com/buzzfeed/sso/internal/zzverif\"", "zz."
	if rel == "internal/zzverif" {
		zzImport, zzSel = "", ""
	}
	src := fmt.Sprintf(`package %s

import (
	"fmt"
	"testing"
%s
)

func TestVerifReplay(t *testing.T) {
	status, detail := %sReplay(VerifHarnesses)
	fmt.Printf("REPLAY-RESULT: %%s | %%s\n", status, detail)
	if status == "reproduced" {
		t.Fatalf("violation reproduced: %%s", detail)
	}
}
`, pkgName, zzImport, zzSel)
	os.WriteFile(testFile, []byte(src), 0o644)
	ov := map[string]map[string]string{"Replace": {}}
	for virt, real := range overlayFiles() {
		ov["Replace"][virt] = real
	}
	ov["Replace"][filepath.Join(repoDir, rel, "zz_verif_replay_test.go")] = testFile
	ob, _ := json.Marshal(ov)
	ovPath := filepath.Join(outRoot, "out", "gen", "overlay.json")
	os.WriteFile(ovPath, ob, 0o644)
	env := append(goEnv(), "VERIF_CEX="+path)
	atomic.AddInt32(&replayRunning, 1)
	defer atomic.AddInt32(&replayRunning, -1)
	out, err := runCmd(repoDir, env, 5*time.Minute, "go", "test", "-v", "-count=1", "-vet=off", "-overlay", ovPath, "-run", "^TestVerifReplay$", "./"+rel)
	for _, line := range strings.Split(out, "\n") {
		if strings.HasPrefix(line, "REPLAY-RESULT: ") {
			parts := strings.SplitN(strings.TrimPrefix(line, "REPLAY-RESULT: "), " | ", 2)
			d := ""
			if len(parts) > 1 {
				d = parts[1]
			}
			return parts[0], d
		}
	}
	// an unrecovered panic or a runtime fatal error of the real code under the model's values
	for _, line := range strings.Split(out, "\n") {
		if strings.HasPrefix(line, "panic: ") || strings.HasPrefix(line, "fatal error: ") {
			// the crash belongs to the real code only if the innermost non-runtime frame of the
			// crashing goroutine (the first stack printed) is a file of the repository itself - a
			// crash inside the harness or the replay runtime is an infrastructure error
			where, harnessFrame := "", ""
			seen := false
			for _, l2 := range strings.Split(out[strings.Index(out, line):], "\n") {
				l2 = strings.TrimSpace(l2)
				if seen && l2 == "" {
					break // end of the first goroutine's stack
				}
				if !strings.HasPrefix(l2, "/") {
					continue
				}
				seen = true
				if !strings.HasPrefix(l2, repoDir+"/") {
					continue // Go runtime, standard library, dependencies
				}
				if strings.Contains(l2, "/zzverif/") || strings.Contains(l2, "zz_verif_") {
					harnessFrame = l2
				} else {
					where = l2
				}
				break
			}
			if where == "" {
				return "error", "native replay crashed outside the code under test (" + line + " at " + harnessFrame + ")"
			}
			return "crashed", line + " at " + where
		}
	}
	tail := out
	if len(tail) > 1500 {
		tail = tail[len(tail)-1500:]
	}
	return "error", fmt.Sprintf("replay did not report (err=%v): %s", err, tail)
}

// schedScore: index of the first step that resumes a thread from zz.Yield (-1 if none / no schedule).
func schedScore(c *Cex) int {
	if c == nil {
		return -1
	}
	for k := 0; ; k++ {
		v, ok := c.Values[fmt.Sprintf("$schedkind#%d", k)]
		if !ok {
			return -1
		}
		if s, _ := v.(string); s == "yield" {
			return k
		}
	}
}

func pkgNameOf(rel string) (string, error) {
	files, _ := filepath.Glob(filepath.Join(repoDir, rel, "*.go"))
	if len(files) == 0 && rel == "internal/zzverif" {
		files, _ = filepath.Glob(filepath.Join(verifDir, "rt/zzverif/*.go"))
	}
	for _, f := range files {
		b, err := os.ReadFile(f)
		if err != nil {
			continue
		}
		for _, line := range strings.Split(string(b), "\n") {
			if strings.HasPrefix(line, "package ") {
				return strings.TrimSpace(strings.TrimPrefix(line, "package ")), nil
			}
		}
	}
	return "", fmt.Errorf("no package clause found")
}

func cmdReplay(args []string) int {
	if len(args) < 1 {
		usage()
	}
	status, detail := replayCex(args[0])
	fmt.Printf("replay %s: %s %s\n", args[0], status, detail)
	if status == "reproduced" {
		return 1
	}
	if status == "not-reproduced" {
		return 0
	}
	return 2
}

func cmdSelftest(args []string) int {
	fmt.Println("selftest: see selftest.go")
	return runSelftest(args)
}
