package main

// compress/gzip, *bytes.Buffer used as a sink/source and io.Copy - data flow only.
// gzip is an uninterpreted injective function of the written bytes; gunzip is its inverse
// on its image and fails (or yields arbitrary bytes) elsewhere. The compressed format
// itself (header, deflate, CRC) is not encoded.

import (
	"encoding/hex"
	"go/types"
	"strings"
)

// bufData returns the bytes held by a *bytes.Buffer (a zero bytes.Buffer struct, or the
// engine's buffer object).
func (w *Worker) bufData(s *State, p PtrV) (Value, bool) {
	if p.Obj == 0 {
		return nil, false
	}
	switch o := s.load(p).(type) {
	case OpaqueObj:
		if o.Kind == "bytes.Buffer" {
			return o.Data, true
		}
	case StructV:
		return SliceV{}, true // var b bytes.Buffer, nothing written yet
	}
	return nil, false
}

func (w *Worker) bufAppend(s *State, p PtrV, data StrV) {
	cur, ok := w.bufData(s, p)
	if !ok {
		panic(engineErr("write to something that is not a *bytes.Buffer"))
	}
	old := litStr("")
	if sl, ok := cur.(SliceV); ok && sl.Obj != 0 {
		old = w.stringOfBytes(s, sl).(StrV)
	}
	s.store(p, OpaqueObj{Kind: "bytes.Buffer", Data: w.bytesOfString(s, strConcat(old, data))})
}

// applyUFInj applies an injective uninterpreted String function.
func (w *Worker) applyUFInj(s *State, name string, vals []Value) string {
	prev := append([]UFApp(nil), s.UF...)
	t := w.applyUF(s, name, vals, "String", "string")
	cur := s.UF[len(s.UF)-1]
	seen := map[string]bool{}
	for _, p := range prev {
		if p.Name != name || len(p.Args) != len(cur.Args) || p.Res == cur.Res || seen[p.Res] {
			continue
		}
		seen[p.Res] = true
		var eqs []string
		for i := range p.Args {
			eqs = append(eqs, tEq(p.Args[i], cur.Args[i]))
		}
		s.addPC(tImp(tEq(p.Res, cur.Res), tAnd(eqs...)))
	}
	return t
}

func init() {
	I := intrinsics
	I["compress/gzip.NewWriter"] = func(c *icall) ([]*State, bool) {
		c.set(c.s.alloc(OpaqueObj{Kind: "gzip.Writer", Data: TupleV{[]Value{c.args[0], litStr("")}}}))
		return nil, false
	}
	I["(*compress/gzip.Writer).Write"] = func(c *icall) ([]*State, bool) {
		p := c.args[0].(PtrV)
		o := c.s.load(p).(OpaqueObj)
		t := o.Data.(TupleV)
		data := c.w.bytesAsStr(c.s, c.args[1])
		c.s.store(p, OpaqueObj{Kind: "gzip.Writer", Data: TupleV{[]Value{t.E[0], strConcat(t.E[1].(StrV), data)}}})
		c.setTuple(sumLen(data), IfaceV{})
		return nil, false
	}
	I["(*compress/gzip.Writer).Close"] = func(c *icall) ([]*State, bool) {
		p := c.args[0].(PtrV)
		o := c.s.load(p).(OpaqueObj)
		t := o.Data.(TupleV)
		plain := t.E[1].(StrV)
		gz := c.w.applyUFInj(c.s, "gzip", []Value{plain})
		// gunzip(gzip(x)) = x, recorded for this path; a gzip stream is never empty
		if c.s.Gz == nil {
			c.s.Gz = map[string]StrV{}
		}
		c.s.Gz[gz] = plain
		c.s.addPC("(>= (str.len " + gz + ") 18)")
		dst := t.E[0].(IfaceV)
		dp, ok := dst.V.(PtrV)
		if !ok || !isNamed(dst.Typ, "bytes", "Buffer") {
			panic(engineErr("gzip.Writer over something that is not a *bytes.Buffer"))
		}
		c.w.bufAppend(c.s, dp, opaqueStr(gz))
		c.set(IfaceV{})
		return nil, false
	}
	I["compress/gzip.NewReader"] = func(c *icall) ([]*State, bool) {
		src := c.args[0].(IfaceV)
		sp, ok := src.V.(PtrV)
		var data Value
		if ok {
			data, ok = c.w.bufData(c.s, sp)
		}
		if !ok {
			panic(engineErr("gzip.NewReader over something that is not a bytes buffer"))
		}
		in := litStr("")
		if sl, ok := data.(SliceV); ok && sl.Obj != 0 {
			in = c.w.stringOfBytes(c.s, sl).(StrV)
		}
		rt := types.NewPointer(c.w.namedType("compress/gzip", "Reader"))
		_ = rt
		mkReader := func(st *State, plain StrV) Value {
			return st.alloc(OpaqueObj{Kind: "gzip.Reader", Data: plain})
		}
		if in.K == SOpaque {
			if plain, hit := c.s.Gz[in.T]; hit {
				c.setTuple(mkReader(c.s, plain), IfaceV{})
				return nil, false
			}
		}
		// bytes of unknown origin: not a gzip stream (error), or the stream of some arbitrary content
		okv := c.w.applyUF(c.s, "gzip.ok", []Value{in}, "Bool", "bool")
		plain := c.w.applyUF(c.s, "gunzip", []Value{in}, "String", "string")
		depth := len(c.s.stack())
		dest := c.dest
		errV := c.opaqueErr(litStr("gzip: invalid header"))
		return c.w.branch(c.s, okv,
			func(st *State) {
				if dest != nil {
					st.stack()[depth-1].Env[dest] = TupleV{[]Value{mkReader(st, opaqueStr(plain)), IfaceV{}}}
				}
			},
			func(st *State) {
				if dest != nil {
					st.stack()[depth-1].Env[dest] = TupleV{[]Value{PtrV{}, errV}}
				}
			})
	}
	I["io.LimitReader"] = func(c *icall) ([]*State, bool) {
		src := c.args[0].(IfaceV)
		n, ok := c.args[1].(IntV)
		sp, ok2 := src.V.(PtrV)
		if !ok || !n.C || !ok2 || sp.Obj == 0 {
			panic(engineErr("io.LimitReader: only a concrete limit over a modelled reader"))
		}
		o, ok := c.s.load(sp).(OpaqueObj)
		if !ok || o.Kind != "gzip.Reader" {
			panic(engineErr("io.LimitReader: only over a gzip.Reader"))
		}
		plain := o.Data.(StrV)
		// the first n bytes: the whole content when it is short enough, else a proper prefix
		lim := plain
		if !(plain.K == SLit && int64(len(plain.S)) <= n.N) {
			pt := plain.term()
			ln := strLen(plain).T
			lim = opaqueStr(tIte("(<= "+ln+" "+n.T+")", pt, "(str.substr "+pt+" 0 "+n.T+")"))
		}
		p := c.s.alloc(OpaqueObj{Kind: "gzip.Reader", Data: lim})
		c.set(IfaceV{Typ: src.Typ, V: p})
		return nil, false
	}
	I["io.Copy"] = func(c *icall) ([]*State, bool) {
		dst, src := c.args[0].(IfaceV), c.args[1].(IfaceV)
		dp, ok1 := dst.V.(PtrV)
		sp, ok2 := src.V.(PtrV)
		if !ok1 || !ok2 || sp.Obj == 0 || !isNamed(dst.Typ, "bytes", "Buffer") {
			panic(engineErr("io.Copy: only gzip.Reader -> *bytes.Buffer is modelled"))
		}
		o, ok := c.s.load(sp).(OpaqueObj)
		if !ok || o.Kind != "gzip.Reader" {
			panic(engineErr("io.Copy: only gzip.Reader -> *bytes.Buffer is modelled"))
		}
		plain := o.Data.(StrV)
		c.w.bufAppend(c.s, dp, plain)
		c.setTuple(sumLen(plain), IfaceV{})
		return nil, false
	}
	readAll := func(c *icall) ([]*State, bool) {
		src := c.args[0].(IfaceV)
		if sp, ok := src.V.(PtrV); ok && sp.Obj != 0 {
			if o, ok := c.s.load(sp).(OpaqueObj); ok {
				switch o.Kind {
				case "gzip.Reader":
					// (a truncated or corrupt stream would also yield the bytes inflated so far with an
					// error; streams here are whole, see gzip.NewReader)
					c.setTuple(c.w.bytesOfString(c.s, o.Data.(StrV)), IfaceV{})
					return nil, false
				case "bytes.Buffer":
					c.setTuple(o.Data, IfaceV{})
					return nil, false
				}
			}
		}
		return c.fallbackModel("ioutil_ReadAll")
	}
	I["io.ReadAll"] = readAll
	I["io/ioutil.ReadAll"] = readAll
	I["(*bytes.Buffer).Bytes"] = func(c *icall) ([]*State, bool) {
		d, ok := c.w.bufData(c.s, c.args[0].(PtrV))
		if !ok {
			panic(engineErr("Bytes of an unknown buffer"))
		}
		c.set(d)
		return nil, false
	}
	I["(*bytes.Buffer).Write"] = func(c *icall) ([]*State, bool) {
		data := c.w.bytesAsStr(c.s, c.args[1])
		c.w.bufAppend(c.s, c.args[0].(PtrV), data)
		c.setTuple(sumLen(data), IfaceV{})
		return nil, false
	}
}

// strings.Builder and the string-flavoured methods of bytes.Buffer: the content is one
// string value attached to the object (a zero Builder / Buffer struct is the empty content).
func (w *Worker) sbGet(s *State, p PtrV, kind string) StrV {
	if p.Obj == 0 {
		panic(goPanic{"nil " + kind})
	}
	switch o := s.load(p).(type) {
	case OpaqueObj:
		if o.Kind == "strings.Builder" {
			return o.Data.(StrV)
		}
		if o.Kind == "bytes.Buffer" {
			if sl, ok := o.Data.(SliceV); ok && sl.Obj != 0 {
				return w.stringOfBytes(s, sl).(StrV)
			}
			return litStr("")
		}
	case StructV:
		return litStr("")
	}
	panic(engineErr("unknown " + kind + " object"))
}

func (w *Worker) sbSet(s *State, p PtrV, kind string, v StrV) {
	if kind == "bytes.Buffer" {
		s.store(p, OpaqueObj{Kind: "bytes.Buffer", Data: w.bytesOfString(s, v)})
		return
	}
	s.store(p, OpaqueObj{Kind: "strings.Builder", Data: v})
}

func init() {
	I := intrinsics
	for _, k := range []struct{ recv, kind string }{{"(*strings.Builder)", "strings.Builder"}, {"(*bytes.Buffer)", "bytes.Buffer"}} {
		kind := k.kind
		I[k.recv+".WriteString"] = func(c *icall) ([]*State, bool) {
			p := c.args[0].(PtrV)
			add := c.str(1)
			c.w.sbSet(c.s, p, kind, strConcat(c.w.sbGet(c.s, p, kind), add))
			c.setTuple(sumLen(add), IfaceV{})
			return nil, false
		}
		I[k.recv+".WriteByte"] = func(c *icall) ([]*State, bool) {
			p := c.args[0].(PtrV)
			b := c.args[1].(IntV)
			var add StrV
			if b.C {
				add = litStr(string([]byte{byte(b.N)}))
			} else {
				add = StrV{K: SChars, C: []string{b.T}}
			}
			c.w.sbSet(c.s, p, kind, strConcat(c.w.sbGet(c.s, p, kind), add))
			c.set(IfaceV{})
			return nil, false
		}
		I[k.recv+".WriteRune"] = func(c *icall) ([]*State, bool) {
			p := c.args[0].(PtrV)
			r := c.args[1].(IntV)
			if !r.C {
				panic(engineErr("WriteRune of a symbolic rune"))
			}
			add := litStr(string(rune(r.N)))
			c.w.sbSet(c.s, p, kind, strConcat(c.w.sbGet(c.s, p, kind), add))
			c.setTuple(mkInt(int64(len(add.S))), IfaceV{})
			return nil, false
		}
		I[k.recv+".String"] = func(c *icall) ([]*State, bool) {
			p := c.args[0].(PtrV)
			if p.Obj == 0 && kind == "bytes.Buffer" {
				c.set(litStr("<nil>"))
				return nil, false
			}
			c.set(c.w.sbGet(c.s, p, kind))
			return nil, false
		}
		I[k.recv+".Len"] = func(c *icall) ([]*State, bool) {
			c.set(sumLen(c.w.sbGet(c.s, c.args[0].(PtrV), kind)))
			return nil, false
		}
		I[k.recv+".Reset"] = func(c *icall) ([]*State, bool) {
			c.w.sbSet(c.s, c.args[0].(PtrV), kind, litStr(""))
			return nil, false
		}
		I[k.recv+".Grow"] = func(c *icall) ([]*State, bool) { return nil, false }
	}
	I["(*strings.Builder).Write"] = func(c *icall) ([]*State, bool) {
		p := c.args[0].(PtrV)
		add := c.w.bytesAsStr(c.s, c.args[1])
		c.w.sbSet(c.s, p, "strings.Builder", strConcat(c.w.sbGet(c.s, p, "strings.Builder"), add))
		c.setTuple(sumLen(add), IfaceV{})
		return nil, false
	}
}

// small standard-library additions that refactorings of sso's code reach for
func init() {
	I := intrinsics
	I["encoding/hex.EncodeToString"] = func(c *icall) ([]*State, bool) {
		b := c.w.bytesAsStr(c.s, c.args[0])
		if b.K == SLit {
			c.set(litStr(hex.EncodeToString([]byte(b.S))))
			return nil, false
		}
		// an injective function of the bytes whose value is a lower-case hex string, empty iff the input is
		v := c.w.applyUFInj(c.s, "hex", []Value{b})
		c.s.addPC("(str.in_re " + v + " (re.* (re.union (re.range \"0\" \"9\") (re.range \"a\" \"f\"))))")
		c.s.addPC(tEq(tEq(v, `""`), tEq(b.term(), `""`)))
		c.set(opaqueStr(v))
		return nil, false
	}
	I["strconv.AppendInt"] = func(c *icall) ([]*State, bool) {
		base, ok := c.args[2].(IntV)
		if !ok || !base.C || base.N != 10 {
			panic(engineErr("strconv.AppendInt with a base other than 10"))
		}
		dst := litStr("")
		if sl := c.args[0].(SliceV); sl.Obj != 0 {
			dst = c.w.stringOfBytes(c.s, sl).(StrV)
		}
		c.set(c.w.bytesOfString(c.s, strConcat(dst, intToStr(c.args[1].(IntV)))))
		return nil, false
	}
	I["strings.Cut"] = func(c *icall) ([]*State, bool) {
		a, sep := c.str(0), c.str(1)
		if a.K == SLit && sep.K == SLit {
			b, af, found := strings.Cut(a.S, sep.S)
			c.setTuple(litStr(b), litStr(af), mkBool(found))
			return nil, false
		}
		// found = contains; s = before ++ sep ++ after with no sep in before - or before = s, after = ""
		found := strContains(a, sep)
		before := c.w.E.freshVar(c.s, "cut.before", "String")
		after := c.w.E.freshVar(c.s, "cut.after", "String")
		yes := tAnd(tEq(a.term(), "(str.++ "+before+" "+sep.term()+" "+after+")"), tNot(strContains(opaqueStr(before), sep)))
		no := tAnd(tEq(before, a.term()), tEq(after, `""`))
		c.s.addPC(tIte(found, yes, no))
		c.setTuple(opaqueStr(before), opaqueStr(after), BoolV{found})
		return nil, false
	}
	I["sort.Sort"] = func(c *icall) ([]*State, bool) {
		iv := c.args[0].(IfaceV)
		if isNamed(iv.Typ, "sort", "StringSlice") {
			if m, ok := c.w.E.Models["sort_Strings"]; ok {
				c.w.E.hitModel("gomodel:sort_Strings")
				return c.w.enter(c.s, c.dest, FuncV{Fn: m}, []Value{iv.V})
			}
		}
		panic(engineErr("sort.Sort of something other than a sort.StringSlice"))
	}
	I["time.AfterFunc"] = func(c *icall) ([]*State, bool) {
		// a timer whose function never fires within the explored window (as time.After channels
		// that are never ready): cache purges by timer are outside the bounded histories
		c.set(c.s.alloc(OpaqueObj{Kind: "time.Timer"}))
		return nil, false
	}
}
