package main

import "go/types"

// bytes.NewBuffer / NewBufferString / NewReader and ioutil.NopCloser: only the data flow
// "these bytes can later be read back" is kept.
func init() {
	I := intrinsics
	mk := func(c *icall, data Value) ([]*State, bool) {
		c.set(c.s.alloc(OpaqueObj{Kind: "bytes.Buffer", Data: data}))
		return nil, false
	}
	I["bytes.NewBuffer"] = func(c *icall) ([]*State, bool) { return mk(c, c.args[0]) }
	I["bytes.NewReader"] = func(c *icall) ([]*State, bool) { return mk(c, c.args[0]) }
	I["bytes.NewBufferString"] = func(c *icall) ([]*State, bool) { return mk(c, c.w.bytesOfString(c.s, c.str(0))) }
	I["strings.NewReader"] = func(c *icall) ([]*State, bool) { return mk(c, c.w.bytesOfString(c.s, c.str(0))) }
	nop := func(c *icall) ([]*State, bool) {
		iv := c.args[0].(IfaceV)
		bt := c.w.namedType("github.com/buzzfeed/sso/internal/zzverif", "Body")
		st := bt.Underlying().(*types.Struct)
		body := zero(bt).(StructV)
		if p, ok := iv.V.(PtrV); ok && p.Obj != 0 {
			switch o := c.s.Heap[p.Obj].(type) {
			case OpaqueObj:
				if o.Kind == "bytes.Buffer" {
					body.F[fieldIndex(st, "Data")] = o.Data
				}
			case StructV:
				if isNamed(iv.Typ, "github.com/buzzfeed/sso/internal/zzverif", "Body") {
					body = o
				}
			}
		}
		c.set(IfaceV{Typ: types.NewPointer(bt), V: c.s.alloc(body)})
		return nil, false
	}
	I["io/ioutil.NopCloser"] = nop
	I["io.NopCloser"] = nop
}
