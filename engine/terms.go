package main

import (
	"go/token"
	"strings"
)

// Boolean term builders with constant folding.
func tNot(a string) string {
	switch a {
	case "true":
		return "false"
	case "false":
		return "true"
	}
	if strings.HasPrefix(a, "(not ") && balancedTail(a[5:len(a)-1]) {
		return a[5 : len(a)-1]
	}
	return "(not " + a + ")"
}

// balancedTail reports whether s is a single well-formed term (so stripping "(not " ")" is valid).
func balancedTail(s string) bool {
	depth := 0
	inStr := false
	for i := 0; i < len(s); i++ {
		c := s[i]
		if inStr {
			if c == '"' {
				inStr = false
			}
			continue
		}
		switch c {
		case '"':
			inStr = true
		case '(':
			depth++
		case ')':
			depth--
			if depth < 0 {
				return false
			}
			if depth == 0 && i != len(s)-1 {
				return false
			}
		case ' ':
			if depth == 0 {
				return false
			}
		}
	}
	return depth == 0
}

func tAnd(xs ...string) string {
	var out []string
	for _, x := range xs {
		if x == "false" {
			return "false"
		}
		if x != "true" {
			out = append(out, x)
		}
	}
	switch len(out) {
	case 0:
		return "true"
	case 1:
		return out[0]
	}
	return "(and " + strings.Join(out, " ") + ")"
}

func tOr(xs ...string) string {
	var out []string
	for _, x := range xs {
		if x == "true" {
			return "true"
		}
		if x != "false" {
			out = append(out, x)
		}
	}
	switch len(out) {
	case 0:
		return "false"
	case 1:
		return out[0]
	}
	return "(or " + strings.Join(out, " ") + ")"
}

func tImp(a, b string) string { return tOr(tNot(a), b) }

func tEq(a, b string) string {
	if a == b {
		return "true"
	}
	return "(= " + a + " " + b + ")"
}

func tIte(c, a, b string) string {
	switch c {
	case "true":
		return a
	case "false":
		return b
	}
	if a == b {
		return a
	}
	return "(ite " + c + " " + a + " " + b + ")"
}

const (
	two63 = "9223372036854775808"
	two64 = "18446744073709551616"
)

// wrap64 maps a mathematical integer term to its int64 two's-complement value.
func wrap64(t string) string {
	return "(- (mod (+ " + t + " " + two63 + ") " + two64 + ") " + two63 + ")"
}

func inInt64(t string) string {
	return "(and (<= (- " + two63 + ") " + t + ") (<= " + t + " 9223372036854775807))"
}

// strLenArg returns T if t is "(str.len T)".
func strLenArg(t string) (string, bool) {
	if strings.HasPrefix(t, "(str.len ") && matchParen(t, 0) == len(t)-1 {
		return t[len("(str.len ") : len(t)-1], true
	}
	return "", false
}

func intCmp(op token.Token, a, b IntV) BoolV {
	// len(s) compared with 0 or 1 is string emptiness: one canonical form, so that code using
	// len(s) > 0 and code using s != "" produce the same term
	if arg, ok := strLenArg(a.T); ok && b.C && (b.N == 0 || b.N == 1) {
		empty := tEq(arg, `""`)
		switch {
		case b.N == 0 && op == token.GTR, b.N == 0 && op == token.NEQ, b.N == 1 && op == token.GEQ:
			return BoolV{tNot(empty)}
		case b.N == 0 && op == token.EQL, b.N == 0 && op == token.LEQ, b.N == 1 && op == token.LSS:
			return BoolV{empty}
		case b.N == 0 && op == token.GEQ:
			return BoolV{"true"}
		case b.N == 0 && op == token.LSS:
			return BoolV{"false"}
		}
	}
	if arg, ok := strLenArg(b.T); ok && a.C && a.N == 0 {
		empty := tEq(arg, `""`)
		switch op {
		case token.LSS, token.NEQ:
			return BoolV{tNot(empty)}
		case token.EQL, token.GEQ:
			return BoolV{empty}
		}
	}
	if a.C && b.C {
		switch op {
		case token.EQL:
			return mkBool(a.N == b.N)
		case token.NEQ:
			return mkBool(a.N != b.N)
		case token.LSS:
			return mkBool(a.N < b.N)
		case token.LEQ:
			return mkBool(a.N <= b.N)
		case token.GTR:
			return mkBool(a.N > b.N)
		case token.GEQ:
			return mkBool(a.N >= b.N)
		}
	}
	switch op {
	case token.EQL:
		return BoolV{tEq(a.T, b.T)}
	case token.NEQ:
		return BoolV{tNot(tEq(a.T, b.T))}
	case token.LSS:
		return BoolV{"(< " + a.T + " " + b.T + ")"}
	case token.LEQ:
		return BoolV{"(<= " + a.T + " " + b.T + ")"}
	case token.GTR:
		return BoolV{"(> " + a.T + " " + b.T + ")"}
	case token.GEQ:
		return BoolV{"(>= " + a.T + " " + b.T + ")"}
	}
	panic(engineErr("intCmp op " + op.String()))
}
