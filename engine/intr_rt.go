package main

import (
	"fmt"
	"go/types"
	"strings"
)

const rtPkg = "github.com/buzzfeed/sso/internal/zzverif."

func litArg(v Value, what string) string {
	sv, ok := v.(StrV)
	if !ok || sv.K != SLit {
		panic(engineErr(what + " must be a literal string"))
	}
	return sv.S
}

func (c *icall) nondet(label, sort, kind string) string {
	key := c.s.nextKey(label)
	v := c.w.E.freshVar(c.s, label, sort)
	c.s.Nondet = append(c.s.Nondet, NondetRec{Key: key, Term: v, Kind: kind})
	return v
}

func init() {
	reg := func(n string, f intrinsic) { intrinsics[rtPkg+n] = f }
	reg("NondetInt", func(c *icall) ([]*State, bool) {
		v := c.nondet(litArg(c.args[0], "label"), "Int", "int")
		c.s.addPC(inInt64(v))
		c.set(symInt(v))
		return nil, false
	})
	intrinsics[rtPkg+"NondetInt64"] = intrinsics[rtPkg+"NondetInt"]
	reg("NondetDuration", func(c *icall) ([]*State, bool) {
		v := c.nondet(litArg(c.args[0], "label"), "Int", "dur")
		c.s.addPC(inInt64(v))
		c.set(symInt(v))
		return nil, false
	})
	reg("NondetBool", func(c *icall) ([]*State, bool) {
		v := c.nondet(litArg(c.args[0], "label"), "Bool", "bool")
		if c.s.FreshBranch == nil {
			c.s.FreshBranch = map[string]bool{}
		}
		c.s.FreshBranch[v] = true
		c.set(BoolV{v})
		return nil, false
	})
	reg("NondetString", func(c *icall) ([]*State, bool) {
		v := c.nondet(litArg(c.args[0], "label"), "String", "string")
		c.set(opaqueStr(v))
		return nil, false
	})
	reg("NondetTime", func(c *icall) ([]*State, bool) {
		v := c.nondet(litArg(c.args[0], "label"), "Int", "time")
		// instants are either the zero Time or within +-2^61 ns of the epoch (years 1896..2043),
		// which keeps deadline arithmetic inside int64 the way real clocks do
		c.s.addPC("(or (= " + v + " " + zeroTime + ") (and (<= (- 2305843009213693952) " + v + ") (<= " + v + " 2305843009213693952)))")
		c.set(TimeV{v})
		return nil, false
	})
	reg("NondetChars", func(c *icall) ([]*State, bool) {
		label := litArg(c.args[0], "label")
		max := concreteInt(c.args[1], "NondetChars maxLen")
		key := c.s.nextKey(label)
		depth := len(c.s.stack())
		dest := c.dest
		var out []*State
		for n := 0; n <= max; n++ {
			st := c.s
			if n < max {
				st = c.s.Fork()
			}
			cs := make([]string, n)
			for i := range cs {
				cs[i] = c.w.E.freshVar(st, fmt.Sprintf("%s.c%d", label, i), "Int")
				st.addPC("(and (<= 0 " + cs[i] + ") (<= " + cs[i] + " 127))")
			}
			st.Nondet = append(st.Nondet, NondetRec{Key: key, Kind: "chars", Aux: cs})
			if dest != nil {
				st.stack()[depth-1].Env[dest] = StrV{K: SChars, C: cs}
			}
			out = append(out, st)
		}
		return out, true
	})
	reg("Choose", func(c *icall) ([]*State, bool) {
		label := litArg(c.args[0], "label")
		n := concreteInt(c.args[1], "Choose n")
		if n <= 0 {
			panic(engineErr("Choose with n<=0"))
		}
		key := c.s.nextKey(label)
		depth := len(c.s.stack())
		dest := c.dest
		var out []*State
		for i := 0; i < n; i++ {
			st := c.s
			if i < n-1 {
				st = c.s.Fork()
			}
			st.Nondet = append(st.Nondet, NondetRec{Key: key, Kind: "choice", Term: fmt.Sprint(i)})
			if dest != nil {
				st.stack()[depth-1].Env[dest] = mkInt(int64(i))
			}
			out = append(out, st)
		}
		if n == 1 {
			return nil, false
		}
		return out, true
	})
	reg("Havoc", func(c *icall) ([]*State, bool) {
		label := litArg(c.args[0], "label")
		iv := c.args[1].(IfaceV)
		p := iv.V.(PtrV)
		elem := iv.Typ.(*types.Pointer).Elem()
		depth := len(c.s.stack())
		_ = depth
		return c.w.havocInto(c.s, label, elem, func(st *State, v Value) { st.store(p, v) })
	})
	reg("Assume", func(c *icall) ([]*State, bool) {
		cond := c.args[0].(BoolV).T
		c.s.Assumes++
		if cond == "true" {
			return nil, false
		}
		if !c.w.feasible(c.s, cond) {
			return nil, true
		}
		c.s.addPC(cond)
		// remember "term = literal" facts so that the same uninterpreted application later folds to the literal
		if strings.HasPrefix(cond, "(= ") && strings.HasSuffix(cond, "\")") {
			if args := splitArgs(cond[3 : len(cond)-1]); len(args) == 2 && strings.HasPrefix(args[1], "\"") && strings.HasPrefix(args[0], "(uf_") {
				if c.s.EqLits == nil {
					c.s.EqLits = map[string]string{}
				}
				c.s.EqLits[args[0]] = parseSMTString(args[1])
			}
		}
		return nil, false
	})
	reg("Assert", func(c *icall) ([]*State, bool) {
		c.w.recordAssert(c.s, litArg(c.args[1], "assert label"), c.args[0].(BoolV).T, "")
		return nil, false
	})
	reg("Reach", func(c *icall) ([]*State, bool) {
		c.s.Reached = append(c.s.Reached, litArg(c.args[0], "reach label"))
		return nil, false
	})
	reg("Log", func(c *icall) ([]*State, bool) {
		sv := c.args[0].(StrV)
		if sv.K == SLit {
			c.s.Trace = append(c.s.Trace, sv.S)
		} else {
			c.s.Trace = append(c.s.Trace, show(sv))
		}
		return nil, false
	})
	reg("Bound", func(c *icall) ([]*State, bool) {
		name := litArg(c.args[0], "bound name")
		v := concreteInt(c.args[1], "bound default")
		if o, ok := pendingVars[name]; ok {
			v = o
		}
		c.set(mkInt(int64(v)))
		return nil, false
	})
	boolArgs := func(c *icall) []string {
		var ts []string
		if sl := c.args[0].(SliceV); sl.Obj != 0 {
			for _, e := range c.s.Heap[sl.Obj].(ArrayV).E[sl.Off : sl.Off+sl.Len] {
				ts = append(ts, e.(BoolV).T)
			}
		}
		return ts
	}
	reg("And", func(c *icall) ([]*State, bool) { c.set(BoolV{tAnd(boolArgs(c)...)}); return nil, false })
	reg("Or", func(c *icall) ([]*State, bool) { c.set(BoolV{tOr(boolArgs(c)...)}); return nil, false })
	reg("Implies", func(c *icall) ([]*State, bool) {
		c.set(BoolV{tImp(c.args[0].(BoolV).T, c.args[1].(BoolV).T)})
		return nil, false
	})
	reg("Not", func(c *icall) ([]*State, bool) { c.set(BoolV{tNot(c.args[0].(BoolV).T)}); return nil, false })
	reg("Ite", func(c *icall) ([]*State, bool) {
		c.set(BoolV{tIte(c.args[0].(BoolV).T, c.args[1].(BoolV).T, c.args[2].(BoolV).T)})
		return nil, false
	})
	reg("ReachIf", func(c *icall) ([]*State, bool) {
		label := litArg(c.args[1], "reach label")
		cond := c.args[0].(BoolV).T
		e := c.w.E
		e.mu.Lock()
		seen := e.Reached[label] > 0
		e.mu.Unlock()
		if seen || cond == "false" {
			return nil, false
		}
		ok := cond == "true"
		if !ok {
			r, _ := c.w.S.Check(c.s.Decls, c.s.PC, []string{cond}, nil)
			ok = r == "sat"
		}
		if ok {
			e.mu.Lock()
			e.Reached[label]++
			e.mu.Unlock()
		}
		return nil, false
	})
	reg("LowerByte", func(c *icall) ([]*State, bool) {
		c.set(charInt(toLowerChar(c.args[0].(IntV).T)))
		return nil, false
	})
	reg("ClockMaxAdvance", func(c *icall) ([]*State, bool) {
		c.s.ClockMax = c.args[0].(IntV).T
		return nil, false
	})
	reg("NoPanic", func(c *icall) ([]*State, bool) { c.s.NoPanic = true; return nil, false })
	reg("NoModel", func(c *icall) ([]*State, bool) {
		// the named Go-source models are switched off for this run: the real code is executed instead
		nm := map[string]bool{}
		for k := range c.s.NoModel {
			nm[k] = true
		}
		for _, a := range sliceElems(c.s, c.args[0]) {
			nm[litArg(a, "model name")] = true
		}
		c.s.NoModel = nm
		return nil, false
	})
	reg("Observe", func(c *icall) ([]*State, bool) {
		iv := c.args[1].(IfaceV)
		// a symbolic boolean that the path condition forces is observed as its value
		if b, ok := iv.V.(BoolV); ok && !b.IsLit() {
			if r, _ := c.w.S.CheckPreciseTO(c.s.Decls, c.s.PC, []string{tNot(b.T)}, nil, 20000); r == "unsat" {
				iv.V = mkBool(true)
			} else if r, _ := c.w.S.CheckPreciseTO(c.s.Decls, c.s.PC, []string{b.T}, nil, 20000); r == "unsat" {
				iv.V = mkBool(false)
			}
		}
		c.s.Trace = append(c.s.Trace, litArg(c.args[0], "label")+"="+observeStr(c.s, iv.V))
		return nil, false
	})
	uf := func(sort, kind string) intrinsic {
		return func(c *icall) ([]*State, bool) {
			name := litArg(c.args[0], "UF name")
			var rest []Value
			if sl := c.args[1].(SliceV); sl.Obj != 0 {
				rest = c.s.Heap[sl.Obj].(ArrayV).E[sl.Off : sl.Off+sl.Len]
			}
			var vals []Value
			for _, r := range rest {
				vals = append(vals, r.(IfaceV).V)
			}
			t := c.w.applyUF(c.s, name, vals, sort, kind)
			switch sort {
			case "Bool":
				c.set(BoolV{t})
			case "Int":
				c.set(symInt(t))
			default:
				c.set(opaqueStr(t))
			}
			return nil, false
		}
	}
	reg("UFBool", uf("Bool", "bool"))
	reg("UFInt", uf("Int", "int"))
	reg("UFString", uf("String", "string"))
	reg("UFStringInj", func(c *icall) ([]*State, bool) {
		name := litArg(c.args[0], "UF name")
		var vals []Value
		if sl := c.args[1].(SliceV); sl.Obj != 0 {
			for _, r := range c.s.Heap[sl.Obj].(ArrayV).E[sl.Off : sl.Off+sl.Len] {
				vals = append(vals, r.(IfaceV).V)
			}
		}
		prev := append([]UFApp(nil), c.s.UF...)
		t := c.w.applyUF(c.s, name, vals, "String", "string")
		cur := c.s.UF[len(c.s.UF)-1]
		// injectivity: equal results only for equal arguments
		seen := map[string]bool{}
		for _, p := range prev {
			if p.Name != name || len(p.Args) != len(cur.Args) || p.Res == cur.Res || seen[p.Res] {
				continue
			}
			seen[p.Res] = true
			var eqs []string
			for i := range p.Args {
				eqs = append(eqs, tEq(p.Args[i], cur.Args[i]))
			}
			c.s.addPC(tImp(tEq(p.Res, cur.Res), tAnd(eqs...)))
		}
		c.set(opaqueStr(t))
		return nil, false
	})
	reg("Regex", func(c *icall) ([]*State, bool) {
		id := litArg(c.args[0], "regex id")
		p := c.s.alloc(OpaqueObj{Kind: "regex", ID: "sym:" + id})
		c.set(p)
		return nil, false
	})
	reg("JSONBodyMistyped", func(c *icall) ([]*State, bool) {
		iv := c.args[0].(IfaceV)
		val, typ := iv.V, iv.Typ
		if p, ok := val.(PtrV); ok {
			val = c.s.load(p)
			typ = typ.(*types.Pointer).Elem()
		}
		p := c.s.alloc(BlobV{Kind: "json", Val: val, Typ: typ, Bad: "false", Mis: true})
		c.set(SliceV{p.Obj, 0, -1, -1})
		return nil, false
	})
	reg("JSONBody", func(c *icall) ([]*State, bool) {
		iv := c.args[0].(IfaceV)
		bad := c.args[1].(BoolV).T
		val, typ := iv.V, iv.Typ
		if p, ok := val.(PtrV); ok {
			val = c.s.load(p)
			typ = typ.(*types.Pointer).Elem()
		}
		p := c.s.alloc(BlobV{Kind: "json", Val: val, Typ: typ, Bad: bad})
		c.set(SliceV{p.Obj, 0, -1, -1})
		return nil, false
	})
}

func observeStr(s *State, v Value) string {
	switch x := v.(type) {
	case StrV:
		if x.K == SLit {
			return x.S
		}
	case IntV:
		if x.C {
			return fmt.Sprint(x.N)
		}
	case BoolV:
		return x.T
	case PtrV:
		if x.Obj == 0 {
			return "<nil>"
		}
	case SliceV:
		if x.Obj == 0 {
			return "[]"
		}
		if arr, ok := s.Heap[x.Obj].(ArrayV); ok && x.Len >= 0 {
			var p []string
			for _, e := range arr.E[x.Off : x.Off+x.Len] {
				p = append(p, observeStr(s, e))
			}
			return "[" + strings.Join(p, " ") + "]"
		}
	case IfaceV:
		if x.IsNil() {
			return "<nil>"
		}
		return observeStr(s, x.V)
	}
	return "?" + show(v)
}

// applyUF returns the term for name(args), declaring the function at first use and
// recording the application so that the native replay can read it from the model.
func (w *Worker) applyUF(s *State, name string, args []Value, sort, rk string) string {
	var sorts, terms, kinds []string
	for _, a := range args {
		switch x := a.(type) {
		case IntV:
			sorts, terms, kinds = append(sorts, "Int"), append(terms, x.T), append(kinds, "int")
		case StrV:
			sorts, terms, kinds = append(sorts, "String"), append(terms, x.term()), append(kinds, "string")
		case BoolV:
			sorts, terms, kinds = append(sorts, "Bool"), append(terms, x.T), append(kinds, "bool")
		case TimeV:
			sorts, terms, kinds = append(sorts, "Int"), append(terms, x.T), append(kinds, "int")
		default:
			panic(engineErr(fmt.Sprintf("UF %s: unsupported argument %T", name, a)))
		}
	}
	fname := "uf_" + sanitize(name)
	decl := "(declare-fun " + fname + " (" + strings.Join(sorts, " ") + ") " + sort + ")"
	e := w.E
	e.gmu.Lock()
	if prev, ok := e.ufDecl[fname]; ok && prev != decl {
		e.gmu.Unlock()
		panic(engineErr("UF " + name + " used with two signatures"))
	}
	e.ufDecl[fname] = decl
	e.gmu.Unlock()
	have := false
	for _, d := range s.Decls {
		if d.Name == fname {
			have = true
			break
		}
	}
	if !have {
		s.Decls = append(s.Decls, VarDecl{Name: fname, Decl: decl})
	}
	t := fname
	if len(terms) > 0 {
		t = "(" + fname + " " + strings.Join(terms, " ") + ")"
	}
	s.UF = append(s.UF, UFApp{Name: name, Args: terms, Kind: kinds, Res: t, RK: rk})
	if lit, ok := s.EqLits[t]; ok && sort == "String" {
		return smtStrLit(lit)
	}
	return t
}

// havocInto builds an arbitrary value of type t (forking over slice lengths) and hands it to put.
func (w *Worker) havocInto(s *State, label string, t types.Type, put func(st *State, v Value)) ([]*State, bool) {
	// collect slice length choice points first: enumerate all shapes
	type shape struct{ lens []int }
	var nSlices int
	var count func(t types.Type, depth int)
	count = func(t types.Type, depth int) {
		if isTimeType(t) {
			return
		}
		switch u := t.Underlying().(type) {
		case *types.Struct:
			for i := 0; i < u.NumFields(); i++ {
				if u.Field(i).Exported() {
					count(u.Field(i).Type(), depth)
				}
			}
		case *types.Slice:
			nSlices++
		}
	}
	count(t, 0)
	max := havocSliceLen
	total := 1
	for i := 0; i < nSlices; i++ {
		total *= max + 1
	}
	if total > 243 {
		panic(engineErr("havoc: too many slice shapes"))
	}
	var out []*State
	for sh := 0; sh < total; sh++ {
		st := s
		if sh < total-1 {
			st = s.Fork()
		}
		k := sh
		nextLen := func() int { n := k % (max + 1); k /= max + 1; return n }
		v := w.havocVal(st, label, t, nextLen)
		put(st, v)
		out = append(out, st)
	}
	if total == 1 {
		return nil, false
	}
	return out, true
}

var havocSliceLen = 2

func (w *Worker) havocVal(s *State, label string, t types.Type, nextLen func() int) Value {
	draw := func(sort, kind string) string {
		key := s.nextKey(label)
		v := w.E.freshVar(s, label, sort)
		s.Nondet = append(s.Nondet, NondetRec{Key: key, Term: v, Kind: kind})
		return v
	}
	if isTimeType(t) {
		v := draw("Int", "time")
		s.addPC("(or (= " + v + " " + zeroTime + ") (and (<= (- 2305843009213693952) " + v + ") (<= " + v + " 2305843009213693952)))")
		return TimeV{v}
	}
	switch u := t.Underlying().(type) {
	case *types.Basic:
		switch {
		case u.Info()&types.IsInteger != 0:
			v := draw("Int", "int")
			bits, signed := typeBits(t)
			if bits == 64 && signed {
				s.addPC(inInt64(v))
			} else if signed {
				s.addPC(fmt.Sprintf("(and (<= (- %d) %s) (< %s %d))", int64(1)<<uint(bits-1), v, v, int64(1)<<uint(bits-1)))
			} else if bits < 64 {
				s.addPC(fmt.Sprintf("(and (<= 0 %s) (< %s %d))", v, v, int64(1)<<uint(bits)))
			} else {
				s.addPC("(and (<= 0 " + v + ") (< " + v + " " + two64 + "))")
			}
			return symInt(v)
		case u.Info()&types.IsBoolean != 0:
			return BoolV{draw("Bool", "bool")}
		case u.Info()&types.IsString != 0:
			return opaqueStr(draw("String", "string"))
		case u.Info()&types.IsFloat != 0:
			return FloatV{F: 0}
		}
	case *types.Struct:
		sv := StructV{F: make([]Value, u.NumFields())}
		for i := 0; i < u.NumFields(); i++ {
			if !u.Field(i).Exported() {
				sv.F[i] = zero(u.Field(i).Type())
				continue
			}
			sv.F[i] = w.havocVal(s, label+"."+u.Field(i).Name(), u.Field(i).Type(), nextLen)
		}
		return sv
	case *types.Slice:
		n := nextLen()
		key := s.nextKey(label + ".len")
		s.Nondet = append(s.Nondet, NondetRec{Key: key, Kind: "choice", Term: fmt.Sprint(n)})
		a := ArrayV{E: make([]Value, n)}
		for i := 0; i < n; i++ {
			a.E[i] = w.havocVal(s, fmt.Sprintf("%s[%d]", label, i), u.Elem(), nextLen)
		}
		if n == 0 {
			// nil and empty are both possible decodings; use empty non-nil
			p := s.alloc(a)
			return SliceV{p.Obj, 0, 0, 0}
		}
		p := s.alloc(a)
		return SliceV{p.Obj, 0, n, n}
	case *types.Pointer, *types.Map, *types.Interface, *types.Signature, *types.Chan:
		return zero(t)
	case *types.Array:
		a := ArrayV{E: make([]Value, u.Len())}
		for i := range a.E {
			a.E[i] = w.havocVal(s, fmt.Sprintf("%s[%d]", label, i), u.Elem(), nextLen)
		}
		return a
	}
	panic(engineErr("havoc: unsupported type " + t.String()))
}
