package main

// github.com/imdario/mergo v0.3.7 Merge and gopkg.in/yaml.v2 Marshal/Unmarshal as engine
// intrinsics over symbolic values.
//
// mergo: a type-directed transcription of merge.go deepMerge / mergo.go isEmptyValue (the
// library walks reflect.Values; here the walk is over the static types and the executor's
// values). Emptiness of strings, integers and booleans is a solver term, so the merged
// field is an if-then-else term (no path fork); slices, maps and pointers have concrete
// shape in this executor, so their cases are decided as the library decides them.
// Not transcribed (engine error = inconclusive if reached): Transformers, map
// elements of struct/pointer/map/slice kind, merging into the value held by a non-nil
// interface, recursive types. The transcription is validated against the real library by
// `gosmt selftest` (VerifSelftestMergo) and every counterexample is replayed natively.
//
// yaml: a document is a token carrying the Go value it was marshalled from (zz.YAMLDoc /
// zz.YAMLFile natively call yaml.Marshal); yaml.Unmarshal into a pointer to the same type
// yields a deep copy of that value. yaml.v2's text grammar is outside the encoding.

import (
	"fmt"
	"go/types"
	"os"
	"path/filepath"
	"strings"
)

type mergeCtx struct {
	w           *Worker
	s           *State
	overwrite   bool
	appendSlice bool
}

func tBoolLit(b bool) string {
	if b {
		return "true"
	}
	return "false"
}

// isEmpty is mergo.isEmptyValue as a Bool term.
func (m *mergeCtx) isEmpty(v Value, t types.Type) string {
	if isTimeType(t) {
		return "false" // a struct
	}
	switch u := t.Underlying().(type) {
	case *types.Basic:
		switch x := v.(type) {
		case StrV:
			switch x.K {
			case SLit:
				return tBoolLit(x.S == "")
			case SChars:
				return tBoolLit(len(x.C) == 0)
			}
			return tEq(x.T, `""`)
		case BoolV:
			return tNot(x.T)
		case IntV:
			if x.C {
				return tBoolLit(x.N == 0)
			}
			return tEq(x.T, "0")
		case FloatV:
			if x.Ns != "" {
				return tEq(x.Ns, "0")
			}
			return tBoolLit(x.F == 0)
		}
		panic(engineErr(fmt.Sprintf("mergo: emptiness of %T (%s)", v, u)))
	case *types.Slice:
		sl := v.(SliceV)
		if sl.Len == -1 {
			panic(engineErr("mergo: emptiness of an opaque byte string"))
		}
		return tBoolLit(sl.Obj == 0 || sl.Len == 0)
	case *types.Array:
		return tBoolLit(u.Len() == 0)
	case *types.Map:
		mv := v.(MapV)
		if mv.Obj == 0 {
			return "true"
		}
		return tBoolLit(len(m.s.Heap[mv.Obj].(MapData).K) == 0)
	case *types.Pointer:
		p := v.(PtrV)
		if p.Obj == 0 {
			return "true"
		}
		return m.isEmpty(m.s.load(p), u.Elem())
	case *types.Interface:
		iv := v.(IfaceV)
		if iv.IsNil() {
			return "true"
		}
		if iv.Opaque != "" || iv.Typ == nil {
			return "false"
		}
		return m.isEmpty(iv.V, iv.Typ)
	case *types.Signature:
		fv, _ := v.(FuncV)
		return tBoolLit(fv.Nil || (fv.Fn == nil))
	case *types.Struct:
		return "false"
	}
	return "false"
}

func hasExportedField(st *types.Struct) bool {
	for i := 0; i < st.NumFields(); i++ {
		f := st.Field(i)
		if inner, ok := f.Type().Underlying().(*types.Struct); ok && f.Anonymous() {
			if hasExportedField(inner) {
				return true
			}
		} else if f.Exported() {
			return true
		}
	}
	return false
}

// iteValue is `if c then a else b` for a basic-kind value.
func iteValue(c string, a, b Value) Value {
	switch c {
	case "true":
		return a
	case "false":
		return b
	}
	switch x := a.(type) {
	case IntV:
		y := b.(IntV)
		if x.T == y.T {
			return x
		}
		return symInt(tIte(c, x.T, y.T))
	case BoolV:
		y := b.(BoolV)
		if x.T == y.T {
			return x
		}
		return BoolV{tIte(c, x.T, y.T)}
	case StrV:
		y := b.(StrV)
		if x.term() == y.term() {
			return x
		}
		return opaqueStr(tIte(c, x.term(), y.term()))
	}
	panic(engineErr(fmt.Sprintf("mergo: conditional assignment of %T", a)))
}

// deepMerge returns the new value of dst (maps and pointees are updated in place on the heap).
func (m *mergeCtx) deepMerge(dst, src Value, t types.Type, canSet bool, depth int) Value {
	if depth > 12 {
		panic(engineErr("mergo: recursion depth"))
	}
	setCond := func() string { // (!isEmptyValue(src)) && (overwrite || isEmptyValue(dst))
		c := tNot(m.isEmpty(src, t))
		if !m.overwrite {
			c = tAnd(c, m.isEmpty(dst, t))
		}
		return c
	}
	if isTimeType(t) {
		// struct without exported fields: whole-value assignment
		if !canSet {
			return dst
		}
		c := setCond()
		if c == "true" {
			return src
		} else if c == "false" {
			return dst
		}
		return TimeV{tIte(c, src.(TimeV).T, dst.(TimeV).T)}
	}
	switch u := t.Underlying().(type) {
	case *types.Struct:
		d, sv := dst.(StructV), src.(StructV)
		if hasExportedField(u) {
			out := StructV{F: append([]Value(nil), d.F...)}
			for i := 0; i < u.NumFields(); i++ {
				out.F[i] = m.deepMerge(d.F[i], sv.F[i], u.Field(i).Type(), canSet && u.Field(i).Exported(), depth+1)
			}
			return out
		}
		if canSet && (m.overwrite || m.isEmpty(dst, t) == "true") { // isEmptyValue(struct) is false
			if m.overwrite {
				return src
			}
		}
		return dst
	case *types.Map:
		dm, sm := dst.(MapV), src.(MapV)
		if sm.Obj == 0 {
			return dst
		}
		smd := m.s.Heap[sm.Obj].(MapData)
		switch u.Elem().Underlying().(type) {
		case *types.Basic:
		default:
			if len(smd.K) > 0 {
				panic(engineErr("mergo: map with non-basic elements"))
			}
		}
		if dm.Obj == 0 {
			if !canSet {
				if len(smd.K) > 0 {
					panic(goPanic{"reflect: reflect.Value.Set using unaddressable value"})
				}
				return dst
			}
			p := m.s.alloc(MapData{})
			dm = MapV{Obj: p.Obj}
		}
		for i, k := range smd.K {
			md := m.s.Heap[dm.Obj].(MapData)
			ch := mapFind(md, k)
			if len(ch) != 1 {
				panic(engineErr("mergo: map key needs a case split (use concrete keys)"))
			}
			nd := MapData{K: append([]Value(nil), md.K...), V: append([]Value(nil), md.V...)}
			if ch[0].Idx >= 0 {
				c := "true"
				if !m.overwrite {
					c = m.isEmpty(nd.V[ch[0].Idx], u.Elem())
				}
				nd.V[ch[0].Idx] = iteValue(c, smd.V[i], nd.V[ch[0].Idx])
			} else {
				nd.K = append(nd.K, k)
				nd.V = append(nd.V, smd.V[i])
			}
			m.s.Heap[dm.Obj] = nd
		}
		return dm
	case *types.Slice:
		if !canSet {
			return dst
		}
		if m.appendSlice {
			// dst.Set(reflect.AppendSlice(dst, src)): a fresh backing array here (aliasing of spare capacity is not tracked)
			de, se := sliceElems(m.s, dst), sliceElems(m.s, src)
			if len(se) == 0 {
				return dst
			}
			a := ArrayV{E: append(append([]Value(nil), de...), se...)}
			p := m.s.alloc(a)
			return SliceV{p.Obj, 0, len(a.E), len(a.E)}
		}
		switch setCond() {
		case "true":
			return src
		case "false":
			return dst
		}
		panic(engineErr("mergo: slice emptiness is symbolic"))
	case *types.Pointer:
		sp, dp := src.(PtrV), dst.(PtrV)
		if sp.Obj == 0 {
			return dst
		}
		if dp.Obj == 0 || m.overwrite {
			if canSet && (m.overwrite || m.isEmpty(dst, t) == "true") {
				return src
			}
			if canSet && !m.overwrite {
				// dst is nil here, hence empty
				return src
			}
			return dst
		}
		merged := m.deepMerge(m.s.load(dp), m.s.load(sp), u.Elem(), true, depth+1)
		m.s.store(dp, merged)
		return dst
	case *types.Interface:
		si, di := src.(IfaceV), dst.(IfaceV)
		if si.IsNil() {
			return dst
		}
		if di.IsNil() || m.overwrite {
			if canSet {
				return src
			}
			return dst
		}
		panic(engineErr("mergo: merging into the value held by a non-nil interface"))
	case *types.Signature, *types.Chan:
		if !canSet {
			return dst
		}
		switch setCond() {
		case "true":
			return src
		case "false":
			return dst
		}
		panic(engineErr("mergo: func emptiness is symbolic"))
	case *types.Array:
		// default case of the library: whole-value assignment; isEmptyValue(array) is Len()==0
		if !canSet || u.Len() == 0 {
			return dst
		}
		if m.overwrite {
			return src
		}
		return dst
	default:
		if !canSet {
			return dst
		}
		return iteValue(setCond(), src, dst)
	}
}

// deepCopy clones a value with everything it points to (fresh heap objects).
func (w *Worker) deepCopy(s *State, v Value, t types.Type, depth int) Value {
	if depth > 16 {
		panic(engineErr("deep copy: recursion depth"))
	}
	if isTimeType(t) {
		return v
	}
	switch u := t.Underlying().(type) {
	case *types.Struct:
		sv := v.(StructV)
		out := StructV{F: make([]Value, len(sv.F))}
		for i := range sv.F {
			out.F[i] = w.deepCopy(s, sv.F[i], u.Field(i).Type(), depth+1)
		}
		return out
	case *types.Pointer:
		p := v.(PtrV)
		if p.Obj == 0 {
			return p
		}
		return s.alloc(w.deepCopy(s, s.load(p), u.Elem(), depth+1))
	case *types.Slice:
		sl := v.(SliceV)
		if sl.Obj == 0 {
			return sl
		}
		if sl.Len == -1 {
			return sl
		}
		el := sliceElems(s, sl)
		a := ArrayV{E: make([]Value, len(el))}
		for i := range el {
			a.E[i] = w.deepCopy(s, el[i], u.Elem(), depth+1)
		}
		p := s.alloc(a)
		return SliceV{p.Obj, 0, len(el), len(el)}
	case *types.Map:
		mv := v.(MapV)
		if mv.Obj == 0 {
			return mv
		}
		md := s.Heap[mv.Obj].(MapData)
		nd := MapData{K: append([]Value(nil), md.K...), V: make([]Value, len(md.V))}
		for i := range md.V {
			nd.V[i] = w.deepCopy(s, md.V[i], u.Elem(), depth+1)
		}
		return MapV{Obj: s.alloc(nd).Obj}
	case *types.Interface:
		iv := v.(IfaceV)
		if iv.IsNil() || iv.Opaque != "" || iv.Typ == nil {
			return iv
		}
		return IfaceV{Typ: iv.Typ, V: w.deepCopy(s, iv.V, iv.Typ, depth+1)}
	case *types.Array:
		av := v.(ArrayV)
		out := ArrayV{E: make([]Value, len(av.E))}
		for i := range av.E {
			out.E[i] = w.deepCopy(s, av.E[i], u.Elem(), depth+1)
		}
		return out
	}
	return v
}

func init() {
	I := intrinsics
	I["github.com/imdario/mergo.Merge"] = func(c *icall) ([]*State, bool) {
		m := &mergeCtx{w: c.w, s: c.s}
		for _, o := range sliceElems(c.s, c.args[2]) {
			fv, ok := o.(FuncV)
			switch {
			case ok && fv.Fn != nil && fv.Fn.Name() == "WithOverride":
				m.overwrite = true
			case ok && fv.Fn != nil && fv.Fn.Name() == "WithAppendSlice":
				m.appendSlice = true
			default:
				panic(engineErr("mergo.Merge: option other than WithOverride / WithAppendSlice"))
			}
		}
		errOf := func(name, msg string) IfaceV { return IfaceV{Opaque: "mergo." + name, V: litStr(msg)} }
		d, sr := c.args[0].(IfaceV), c.args[1].(IfaceV)
		if d.IsNil() || sr.IsNil() {
			c.set(errOf("ErrNilArguments", "src and dst must not be nil"))
			return nil, false
		}
		dpt, ok := d.Typ.Underlying().(*types.Pointer)
		dp, ok2 := d.V.(PtrV)
		if !ok || !ok2 {
			panic(goPanic{"reflect: call of reflect.Value.Elem on non-pointer Value"})
		}
		if dp.Obj == 0 {
			panic(goPanic{"reflect: call of reflect.Value.Kind on zero Value (nil dst)"})
		}
		dt := dpt.Elem()
		switch dt.Underlying().(type) {
		case *types.Struct, *types.Map:
		default:
			c.set(errOf("ErrNotSupported", "only structs and maps are supported"))
			return nil, false
		}
		st, sv := sr.Typ, sr.V
		if spt, ok := st.Underlying().(*types.Pointer); ok {
			sp := sv.(PtrV)
			if sp.Obj == 0 {
				// reflect.ValueOf((*T)(nil)).Elem() is the zero Value: Type() panics
				panic(goPanic{"reflect: call of reflect.Value.Type on zero Value (nil src pointer)"})
			}
			st, sv = spt.Elem(), c.s.load(sp)
		}
		if !types.Identical(dt, st) {
			c.set(errOf("ErrDifferentArgumentsTypes", "src and dst must be of same type"))
			return nil, false
		}
		c.s.store(dp, m.deepMerge(c.s.load(dp), sv, dt, true, 0))
		c.set(IfaceV{})
		return nil, false
	}

	yamlDoc := func(c *icall, iv IfaceV) int {
		val, typ := iv.V, iv.Typ
		snap := c.w.deepCopy(c.s, val, typ, 0)
		return c.s.alloc(BlobV{Kind: "yaml", Val: snap, Typ: typ, Bad: "false"}).Obj
	}
	I["gopkg.in/yaml.v2.Marshal"] = func(c *icall) ([]*State, bool) {
		obj := yamlDoc(c, c.args[0].(IfaceV))
		c.setTuple(SliceV{obj, 0, -1, -1}, IfaceV{})
		return nil, false
	}
	I["gopkg.in/yaml.v2.Unmarshal"] = func(c *icall) ([]*State, bool) {
		data := c.args[0].(SliceV)
		target := c.args[1].(IfaceV)
		tp, ok := target.V.(PtrV)
		if !ok || tp.Obj == 0 || data.Obj == 0 {
			panic(engineErr("yaml.Unmarshal: nil target or empty document"))
		}
		b, ok := c.s.Heap[data.Obj].(BlobV)
		if !ok || b.Kind != "yaml" {
			panic(engineErr("yaml.Unmarshal of bytes that are not a zz.YAMLDoc document (yaml text grammar is not encoded)"))
		}
		telem := target.Typ.Underlying().(*types.Pointer).Elem()
		if !types.Identical(telem, b.Typ) {
			panic(engineErr("yaml.Unmarshal into " + telem.String() + " of a document marshalled from " + b.Typ.String()))
		}
		c.s.store(tp, c.w.deepCopy(c.s, b.Val, b.Typ, 0))
		c.set(IfaceV{})
		return nil, false
	}
	intrinsics["github.com/buzzfeed/sso/internal/zzverif.YAMLDoc"] = func(c *icall) ([]*State, bool) {
		obj := yamlDoc(c, c.args[0].(IfaceV))
		c.set(SliceV{obj, 0, -1, -1})
		return nil, false
	}
	intrinsics["github.com/buzzfeed/sso/internal/zzverif.YAMLFile"] = func(c *icall) ([]*State, bool) {
		obj := yamlDoc(c, c.args[0].(IfaceV))
		name := c.w.E.freshVar(c.s, "file", "String")
		c.s.addPC(tNot(tEq(name, `""`)))
		if c.s.FileOf == nil {
			c.s.FileOf = map[string]int{}
		}
		c.s.FileOf[name] = obj
		sv := opaqueStr(name)
		sv.Min = 1
		c.set(sv)
		return nil, false
	}
	I["io/ioutil.ReadFile"] = func(c *icall) ([]*State, bool) {
		name := c.str(0)
		if name.K == SOpaque {
			if obj, ok := c.s.FileOf[name.T]; ok {
				c.setTuple(SliceV{obj, 0, -1, -1}, IfaceV{})
				return nil, false
			}
		}
		if name.K == SLit {
			// a file of the repository (e.g. testdata), read as it is; relative names are relative
			// to the directory of the package under test, as under `go test`
			path := name.S
			if !filepath.IsAbs(path) && c.w.E.RootPkg != nil {
				rel := strings.TrimPrefix(c.w.E.RootPkg.Pkg.Path(), "github.com/buzzfeed/sso")
				path = filepath.Join(repoDir, rel, path)
			}
			b, err := os.ReadFile(path)
			if err != nil {
				c.setTuple(SliceV{}, c.opaqueErr(litStr(err.Error())))
			} else {
				c.setTuple(c.w.bytesOfString(c.s, litStr(string(b))), IfaceV{})
			}
			return nil, false
		}
		panic(engineErr("ioutil.ReadFile of a file that is not a zz.YAMLFile"))
	}
	I["os.ReadFile"] = I["io/ioutil.ReadFile"]
	I["os.Environ"] = func(c *icall) ([]*State, bool) {
		// the process environment holds no SSO_CONFIG_ variables (template variables are passed explicitly)
		c.set(SliceV{})
		return nil, false
	}
}
