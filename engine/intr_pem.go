package main

// encoding/pem, crypto/x509 and crypto/rsa for the start-up path of the request signer: a
// LITERAL key file is parsed by the real libraries inside the executor (the native objects
// travel as opaque heap objects); the RSA signature itself is an uninterpreted injective
// function of the digest.

import (
	"crypto/rsa"
	"crypto/x509"
	"encoding/pem"
	"go/types"
)

func init() {
	I := intrinsics
	litBytes := func(c *icall, v Value) ([]byte, bool) {
		sl, ok := v.(SliceV)
		if !ok {
			return nil, false
		}
		if sl.Obj == 0 {
			return nil, true
		}
		sv, ok := c.w.stringOfBytes(c.s, sl).(StrV)
		if !ok || sv.K != SLit {
			return nil, false
		}
		return []byte(sv.S), true
	}
	I["encoding/pem.Decode"] = func(c *icall) ([]*State, bool) {
		data, ok := litBytes(c, c.args[0])
		if !ok {
			panic(engineErr("pem.Decode of symbolic bytes"))
		}
		blk, rest := pem.Decode(data)
		restV := c.w.bytesOfString(c.s, litStr(string(rest)))
		if blk == nil {
			c.setTuple(PtrV{}, restV)
			return nil, false
		}
		bt := c.w.namedType("encoding/pem", "Block")
		st := bt.Underlying().(*types.Struct)
		sv := zero(bt).(StructV)
		sv.F[fieldIndex(st, "Type")] = litStr(blk.Type)
		sv.F[fieldIndex(st, "Bytes")] = c.w.bytesOfString(c.s, litStr(string(blk.Bytes)))
		if len(blk.Headers) > 0 {
			panic(engineErr("pem block with headers"))
		}
		c.setTuple(c.s.alloc(sv), restV)
		return nil, false
	}
	I["encoding/pem.EncodeToMemory"] = func(c *icall) ([]*State, bool) {
		p := c.args[0].(PtrV)
		bt := c.w.namedType("encoding/pem", "Block")
		st := bt.Underlying().(*types.Struct)
		sv := c.s.load(p).(StructV)
		typ, ok1 := sv.F[fieldIndex(st, "Type")].(StrV)
		b, ok2 := litBytes(c, sv.F[fieldIndex(st, "Bytes")])
		if !ok1 || typ.K != SLit || !ok2 {
			panic(engineErr("pem.EncodeToMemory of a symbolic block"))
		}
		c.set(c.w.bytesOfString(c.s, litStr(string(pem.EncodeToMemory(&pem.Block{Type: typ.S, Bytes: b})))))
		return nil, false
	}
	I["crypto/x509.ParsePKCS8PrivateKey"] = func(c *icall) ([]*State, bool) {
		der, ok := litBytes(c, c.args[0])
		if !ok {
			panic(engineErr("x509.ParsePKCS8PrivateKey of symbolic bytes"))
		}
		key, err := x509.ParsePKCS8PrivateKey(der)
		if err != nil {
			c.setTuple(IfaceV{}, c.opaqueErr(litStr(err.Error())))
			return nil, false
		}
		rk, ok := key.(*rsa.PrivateKey)
		if !ok {
			panic(engineErr("a PKCS8 key that is not RSA"))
		}
		p := c.s.alloc(OpaqueObj{Kind: "rsa.PrivateKey", Data: rk})
		c.setTuple(IfaceV{Typ: types.NewPointer(c.w.namedType("crypto/rsa", "PrivateKey")), V: p}, IfaceV{})
		return nil, false
	}
	I["(*crypto/rsa.PrivateKey).Public"] = func(c *icall) ([]*State, bool) {
		o, ok := c.s.load(c.args[0].(PtrV)).(OpaqueObj)
		if !ok || o.Kind != "rsa.PrivateKey" {
			panic(engineErr("Public() of an unknown key object"))
		}
		rk := o.Data.(*rsa.PrivateKey)
		p := c.s.alloc(OpaqueObj{Kind: "rsa.PublicKey", Data: &rk.PublicKey})
		c.set(IfaceV{Typ: types.NewPointer(c.w.namedType("crypto/rsa", "PublicKey")), V: p})
		return nil, false
	}
	I["crypto/x509.MarshalPKCS1PublicKey"] = func(c *icall) ([]*State, bool) {
		o, ok := c.s.load(c.args[0].(PtrV)).(OpaqueObj)
		if !ok || o.Kind != "rsa.PublicKey" {
			panic(engineErr("MarshalPKCS1PublicKey of an unknown key object"))
		}
		c.set(c.w.bytesOfString(c.s, litStr(string(x509.MarshalPKCS1PublicKey(o.Data.(*rsa.PublicKey))))))
		return nil, false
	}
	I["(*crypto/rsa.PrivateKey).Sign"] = func(c *icall) ([]*State, bool) {
		// PKCS#1 v1.5 signing is deterministic: an injective function of the digest (per key; the
		// programs here hold one key)
		digest := c.w.bytesAsStr(c.s, c.args[2])
		sig := c.w.applyUFInj(c.s, "rsa_sign", []Value{digest})
		c.s.addPC(tNot(tEq(sig, `""`)))
		c.setTuple(c.w.bytesOfString(c.s, opaqueStr(sig)), IfaceV{})
		return nil, false
	}
}
