package main

import (
	"fmt"
	"go/types"
	"strconv"
	"strings"

	"golang.org/x/tools/go/ssa"
)

// Value is a symbolic value. Values are immutable: updates build new spines.
type Value interface{}

// IntV is an SMT Int term (Go integers; wrap-around applied at multiplication and
// checked at addition/subtraction, see arith.go). C marks a concrete literal.
type IntV struct {
	T string
	C bool
	N int64
}

// FloatV: only concrete float constants are supported.
type FloatV struct {
	F   float64
	Ns  string // if set: the value is (Int term Ns)/Div (time.Duration.Seconds/Minutes/Hours of a symbolic duration)
	Div int64
}

type BoolV struct{ T string } // "true"/"false" are literals

// StrV has three representations.
const (
	SLit    = 0 // concrete Go string S
	SOpaque = 1 // SMT String term T
	SChars  = 2 // concrete length, symbolic bytes C (Int terms 0..255)
)

type StrV struct {
	K       int
	S       string
	T       string
	C       []string
	Pre     string // opaque only: a known literal prefix of the value
	Min     int    // opaque only: a known lower bound of the length
	FromInt string // opaque only: the value is the decimal spelling of this Int term
}

type TimeV struct{ T string } // Int: ns since Unix epoch (mathematical); zeroTime is year 1
type StructV struct{ F []Value }
type ArrayV struct{ E []Value }
type TupleV struct{ E []Value }
type PtrV struct { // Obj==0: nil
	Obj  int
	Path []int
}
type FuncV struct {
	Fn    *ssa.Function
	Free  []Value
	Nil   bool
	Bound Value // receiver for bound-method closures handled by ssa itself (unused)
}
type IfaceV struct {
	Typ    types.Type // nil and Opaque=="" => nil interface
	V      Value
	Opaque string // opaque non-nil identity (external sentinel errors)
}
type SliceV struct {
	Obj, Off, Len, Cap int // Obj==0: nil slice. Len==-1: whole blob (BlobV object)
}
type MapV struct{ Obj int }
type MapData struct {
	K, V []Value
}
type ChanV struct{ Obj int }
type ChanData struct {
	Buf    []Value
	Cap    int
	Closed bool
}
type UnitV struct{}

// BlobV is a heap object standing for a byte string that is only passed around:
// the bytes of an opaque string, or a JSON document carrying a structured value.
type BlobV struct {
	Kind string // "str" | "json"
	S    StrV
	Val  Value
	Typ  types.Type
	Bad  string // Bool term: document is malformed (json)
	Mis  bool   // a well-formed document with one member of the wrong type: decoding fills the rest and reports an error
	Gz   int    // gzip wrapping depth (informational)
}

// OpaqueObj is a heap object with identity only (regexps, tickers...).
type OpaqueObj struct {
	Kind string
	ID   string
	Data Value
}

func (i IfaceV) IsNil() bool { return i.Typ == nil && i.Opaque == "" }

const zeroTime = "(- 62135596800000000000)"

func mkInt(n int64) IntV {
	if n < 0 {
		if n == -9223372036854775808 {
			return IntV{T: "(- 9223372036854775808)", C: true, N: n}
		}
		return IntV{T: "(- " + strconv.FormatInt(-n, 10) + ")", C: true, N: n}
	}
	return IntV{T: strconv.FormatInt(n, 10), C: true, N: n}
}
func symInt(t string) IntV { return IntV{T: t} }
func mkBool(b bool) BoolV  { return BoolV{strconv.FormatBool(b)} }
func litStr(s string) StrV { return StrV{K: SLit, S: s} }
func opaqueStr(t string) StrV {
	if len(t) >= 2 && t[0] == '"' && t[len(t)-1] == '"' && !strings.Contains(t[1:len(t)-1], `"`) && !strings.Contains(t, `\u`) {
		return litStr(t[1 : len(t)-1])
	}
	return StrV{K: SOpaque, T: t}
}

func (b BoolV) IsLit() bool { return b.T == "true" || b.T == "false" }

// smtStrLit renders a Go byte string as an SMT-LIB string literal (one char per byte).
func smtStrLit(s string) string {
	var b strings.Builder
	b.WriteByte('"')
	for i := 0; i < len(s); i++ {
		c := s[i]
		switch {
		case c == '"':
			b.WriteString(`""`)
		case c == '\\':
			b.WriteString(`\u{5c}`)
		case c >= 0x20 && c < 0x7f:
			b.WriteByte(c)
		default:
			fmt.Fprintf(&b, `\u{%x}`, c)
		}
	}
	b.WriteByte('"')
	return b.String()
}

// term gives the SMT String term of an opaque or literal string.
func (s StrV) term() string {
	switch s.K {
	case SLit:
		return smtStrLit(s.S)
	case SOpaque:
		return s.T
	}
	// chars -> string term
	if len(s.C) == 0 {
		return `""`
	}
	parts := make([]string, len(s.C))
	for i, c := range s.C {
		parts[i] = "(str.from_code " + c + ")"
	}
	if len(parts) == 1 {
		return parts[0]
	}
	return "(str.++ " + strings.Join(parts, " ") + ")"
}

// chars gives the byte terms of a literal or chars string.
func (s StrV) chars() ([]string, bool) {
	switch s.K {
	case SLit:
		out := make([]string, len(s.S))
		for i := 0; i < len(s.S); i++ {
			out[i] = strconv.Itoa(int(s.S[i]))
		}
		return out, true
	case SChars:
		return s.C, true
	}
	return nil, false
}

func isTimeType(t types.Type) bool {
	n, ok := t.(*types.Named)
	return ok && n.Obj().Pkg() != nil && n.Obj().Pkg().Path() == "time" && n.Obj().Name() == "Time"
}

func isNamed(t types.Type, pkg, name string) bool {
	if p, ok := t.(*types.Pointer); ok {
		t = p.Elem()
	}
	n, ok := t.(*types.Named)
	return ok && n.Obj().Pkg() != nil && n.Obj().Pkg().Path() == pkg && n.Obj().Name() == name
}

func zero(t types.Type) Value {
	if isTimeType(t) {
		return TimeV{zeroTime}
	}
	switch u := t.Underlying().(type) {
	case *types.Basic:
		switch {
		case u.Info()&types.IsInteger != 0:
			return mkInt(0)
		case u.Info()&types.IsBoolean != 0:
			return mkBool(false)
		case u.Info()&types.IsString != 0:
			return litStr("")
		case u.Info()&types.IsFloat != 0:
			return FloatV{F: 0}
		case u.Kind() == types.UnsafePointer:
			return PtrV{}
		case u.Kind() == types.UntypedNil:
			return PtrV{}
		}
	case *types.Struct:
		s := StructV{F: make([]Value, u.NumFields())}
		for i := 0; i < u.NumFields(); i++ {
			s.F[i] = zero(u.Field(i).Type())
		}
		return s
	case *types.Array:
		if u.Len() > 4096 {
			panic(engineErr("zero: array too large: " + t.String()))
		}
		a := ArrayV{E: make([]Value, u.Len())}
		for i := range a.E {
			a.E[i] = zero(u.Elem())
		}
		return a
	case *types.Pointer:
		return PtrV{}
	case *types.Signature:
		return FuncV{Nil: true}
	case *types.Interface:
		return IfaceV{}
	case *types.Slice:
		return SliceV{}
	case *types.Map:
		return MapV{}
	case *types.Chan:
		return ChanV{}
	case *types.Tuple:
		tv := TupleV{E: make([]Value, u.Len())}
		for i := range tv.E {
			tv.E[i] = zero(u.At(i).Type())
		}
		return tv
	}
	panic(engineErr("zero: unsupported type " + t.String()))
}

type engineErr string

func (e engineErr) Error() string { return string(e) }

// sub reads the component at path.
func sub(v Value, path []int) Value {
	for _, i := range path {
		switch x := v.(type) {
		case StructV:
			v = x.F[i]
		case ArrayV:
			if i < 0 || i >= len(x.E) {
				panic(engineErr("sub: index out of array"))
			}
			v = x.E[i]
		default:
			panic(engineErr(fmt.Sprintf("sub: bad path into %T", v)))
		}
	}
	return v
}

// setSub returns v with the component at path replaced (functional update).
func setSub(v Value, path []int, nv Value) Value {
	if len(path) == 0 {
		return nv
	}
	switch x := v.(type) {
	case StructV:
		n := StructV{F: append([]Value(nil), x.F...)}
		n.F[path[0]] = setSub(x.F[path[0]], path[1:], nv)
		return n
	case ArrayV:
		n := ArrayV{E: append([]Value(nil), x.E...)}
		n.E[path[0]] = setSub(x.E[path[0]], path[1:], nv)
		return n
	}
	panic(engineErr(fmt.Sprintf("setSub: bad path into %T", v)))
}

func pathEq(a, b []int) bool {
	if len(a) != len(b) {
		return false
	}
	for i := range a {
		if a[i] != b[i] {
			return false
		}
	}
	return true
}

func extPath(p []int, i int) []int {
	n := make([]int, len(p)+1)
	copy(n, p)
	n[len(p)] = i
	return n
}

func show(v Value) string {
	switch x := v.(type) {
	case IntV:
		return x.T
	case BoolV:
		return x.T
	case StrV:
		if x.K == SChars {
			return "chars[" + strings.Join(x.C, ",") + "]"
		}
		return x.term()
	case TimeV:
		return "time:" + x.T
	case StructV:
		var p []string
		for _, f := range x.F {
			p = append(p, show(f))
		}
		return "{" + strings.Join(p, ",") + "}"
	case PtrV:
		return fmt.Sprintf("&o%d%v", x.Obj, x.Path)
	case IfaceV:
		if x.IsNil() {
			return "nil"
		}
		if x.Opaque != "" {
			return "opaque:" + x.Opaque
		}
		return "iface(" + x.Typ.String() + ":" + show(x.V) + ")"
	}
	return fmt.Sprintf("%T", v)
}
