package main

import (
	"encoding/json"
	"flag"
	"fmt"
	"os"
	"os/exec"
	"path/filepath"
	"runtime"
	"sort"
	"strconv"
	"strings"
	"sync/atomic"
	"time"

	"golang.org/x/tools/go/packages"
	"golang.org/x/tools/go/ssa"
	"golang.org/x/tools/go/ssa/ssautil"
)

// verifDir is /verif ($VERIF_DIR: development copy of the machinery, never set by registered commands).
var verifDir = func() string {
	if v := os.Getenv("VERIF_DIR"); v != "" {
		return v
	}
	return "/verif"
}()

// repoDir is /repo. $VERIF_REPO redirects the checks to another checkout and $VERIF_OUT their
// scratch/evidence output elsewhere (development aid: the sensitivity matrix runs the checks
// against patched copies without touching /repo; registered commands never set them).
var repoDir = func() string {
	if v := os.Getenv("VERIF_REPO"); v != "" {
		return v
	}
	return "/repo"
}()

var outRoot = func() string {
	if v := os.Getenv("VERIF_OUT"); v != "" {
		return v
	}
	return verifDir
}()

func usage() {
	fmt.Fprintln(os.Stderr, "usage: gosmt check <ID> [--tier quick|thorough] | gosmt run <pkg> <harness>... | gosmt replay <cex.json> | gosmt selftest")
	os.Exit(2)
}

// stallGuard ends the process as inconclusive (exit 2) when no solver round trip has
// completed for 10 minutes and no native replay is running: a last line of defence against
// a hang that would otherwise never return a verdict.
var replayRunning int32

// harnessBudget bounds the exploration of one harness (wall clock); what is left unexplored
// when it runs out is reported as inconclusive. Set per tier in cmdCheck.
var harnessBudget time.Duration

func stallGuard() {
	last, since := int64(-1), time.Now()
	for {
		time.Sleep(20 * time.Second)
		cur := atomic.LoadInt64(&progressTick)
		if cur != last || atomic.LoadInt32(&replayRunning) != 0 {
			last, since = cur, time.Now()
			continue
		}
		if time.Since(since) > 10*time.Minute {
			buf := make([]byte, 1<<20)
			n := runtime.Stack(buf, true)
			os.WriteFile(filepath.Join(outRoot, "out", "stall-goroutines.txt"), buf[:n], 0o644)
			fmt.Println("INCONCLUSIVE: the engine made no progress for 10 minutes (goroutine dump in out/stall-goroutines.txt)")
			exec.Command("pkill", "-P", strconv.Itoa(os.Getpid())).Run()
			os.Exit(2)
		}
	}
}

func main() {
	go stallGuard()
	if len(os.Args) < 2 {
		usage()
	}
	switch os.Args[1] {
	case "check":
		os.Exit(cmdCheck(os.Args[2:]))
	case "run":
		os.Exit(cmdRun(os.Args[2:]))
	case "replay":
		os.Exit(cmdReplay(os.Args[2:]))
	case "selftest":
		os.Exit(cmdSelftest(os.Args[2:]))
	default:
		usage()
	}
}

// overlayFiles maps virtual /repo paths to real files under /verif.
func overlayFiles() map[string]string {
	ov := map[string]string{}
	rt, _ := filepath.Glob(filepath.Join(verifDir, "rt/zzverif/*.go"))
	for _, f := range rt {
		ov[filepath.Join(repoDir, "internal/zzverif", filepath.Base(f))] = f
	}
	filepath.Walk(filepath.Join(verifDir, "harness"), func(p string, info os.FileInfo, err error) error {
		if err == nil && !info.IsDir() && strings.HasSuffix(p, ".go") {
			rel, _ := filepath.Rel(filepath.Join(verifDir, "harness"), p)
			ov[filepath.Join(repoDir, rel)] = p
		}
		return nil
	})
	// development aid (sensitivity suite): overlay mutated copies of repository files without touching /repo
	if x := os.Getenv("VERIF_EXTRA_OVERLAY"); x != "" {
		for _, kv := range strings.Split(x, ",") {
			if p := strings.SplitN(kv, "=", 2); len(p) == 2 {
				ov[p[0]] = p[1]
			}
		}
	}
	return ov
}

type Loaded struct {
	Prog  *ssa.Program
	Pkgs  map[string]*ssa.Package
	LoadS float64
}

func goEnv() []string {
	return append(os.Environ(), "GOFLAGS=-mod=mod", "GOPROXY=off", "GOSUMDB=off", "GOTOOLCHAIN=local", "CGO_ENABLED=0")
}

func loadProgram(pkgPaths []string, extraOverlay map[string][]byte) (*Loaded, error) {
	t0 := time.Now()
	ov := map[string][]byte{}
	for virt, real := range overlayFiles() {
		if strings.HasSuffix(virt, "_test.go") {
			continue
		}
		b, err := os.ReadFile(real)
		if err != nil {
			return nil, err
		}
		ov[virt] = b
	}
	for k, v := range extraOverlay {
		ov[k] = v
	}
	cfg := &packages.Config{Mode: packages.LoadAllSyntax, Dir: repoDir, Env: goEnv(), Overlay: ov}
	pkgs, err := packages.Load(cfg, pkgPaths...)
	if err != nil {
		return nil, err
	}
	var errs []string
	packages.Visit(pkgs, nil, func(p *packages.Package) {
		for _, e := range p.Errors {
			errs = append(errs, e.Error())
		}
	})
	if len(errs) > 0 {
		return nil, fmt.Errorf("harness/package does not type-check:\n%s", strings.Join(errs, "\n"))
	}
	prog, spkgs := ssautil.AllPackages(pkgs, ssa.InstantiateGenerics)
	prog.Build()
	l := &Loaded{Prog: prog, Pkgs: map[string]*ssa.Package{}, LoadS: time.Since(t0).Seconds()}
	for i, p := range pkgs {
		l.Pkgs[p.PkgPath] = spkgs[i]
	}
	return l, nil
}

func collectModels(prog *ssa.Program) map[string]*ssa.Function {
	m := map[string]*ssa.Function{}
	for _, p := range prog.AllPackages() {
		if !strings.HasPrefix(p.Pkg.Path(), "github.com/buzzfeed/sso") {
			continue
		}
		for name, mem := range p.Members {
			if fn, ok := mem.(*ssa.Function); ok {
				if strings.HasPrefix(name, "VerifModel_") || strings.HasPrefix(name, "verifModel_") {
					m[name[len("VerifModel_"):]] = fn
				}
			}
		}
	}
	return m
}

type HarnessResult struct {
	Name         string
	Pkg          string
	Paths        int
	Ends         map[string]int
	Inconcl      map[string]int
	Panics       map[string]int
	Obligations  int
	Discharged   int
	Nontrivial   int
	Violations   []AssertRes
	Unknown      []AssertRes
	ByLabel      map[string][2]int
	Reached      map[string]int
	MissingReach []string
	Queries      int
	CacheHits    int
	SolverS      float64
	PrecQ        int
	PrecS        float64
	WallS        float64
	Samples      []string
	Functions    []map[string]interface{}
	ModelsHit    map[string]int
	Overflow     int
}

func defaultCfg() Config {
	w := runtime.NumCPU()
	if v := os.Getenv("VERIF_WORKERS"); v != "" {
		w, _ = strconv.Atoi(v)
	}
	return Config{Workers: w, Unwind: 40, MaxDepth: 80, TimeoutMs: 20000, MaxPaths: 2000000}
}

func runHarness(l *Loaded, pkgPath, name string, cfg Config, reach []string) (*HarnessResult, error) {
	sp := l.Pkgs[pkgPath]
	if sp == nil {
		return nil, fmt.Errorf("package %s not loaded", pkgPath)
	}
	fn := sp.Func(name)
	if fn == nil {
		return nil, fmt.Errorf("no harness %s in %s", name, pkgPath)
	}
	e := NewEngine(l.Prog, cfg)
	e.Models = collectModels(l.Prog)
	e.RootPkg = sp
	t0 := time.Now()
	if harnessBudget > 0 {
		e.Deadline = t0.Add(harnessBudget)
	}
	iw := &Worker{E: e, S: e.Pool.New(cfg.TimeoutMs)}
	e.InitPackages(sp, iw)
	e.Run(fn, name)
	hr := &HarnessResult{Name: name, Pkg: pkgPath, Paths: e.Paths, Ends: e.Ends, Inconcl: e.Inconcl, Panics: e.PanicsAt, ByLabel: map[string][2]int{}, Reached: e.Reached,
		Samples: e.Samples, ModelsHit: e.ModelsHit, Overflow: e.OverflowPaths}
	for _, r := range e.Results {
		hr.Obligations++
		c := hr.ByLabel[r.Label]
		switch {
		case r.Res == "unsat":
			hr.Discharged++
			c[0]++
			if r.Nontrivial {
				hr.Nontrivial++
			}
		case r.Res == "sat":
			hr.Violations = append(hr.Violations, r)
			c[1]++
		default:
			hr.Unknown = append(hr.Unknown, r)
			c[1]++
		}
		hr.ByLabel[r.Label] = c
	}
	for _, r := range reach {
		if e.Reached[r] == 0 {
			hr.MissingReach = append(hr.MissingReach, r)
		}
	}
	for _, s := range e.Pool.all {
		hr.Queries += s.Queries
		hr.CacheHits += s.CacheHit
		hr.SolverS += s.Dur.Seconds()
		hr.PrecQ += s.PrecQ
		hr.PrecS += s.PrecDur.Seconds()
		for _, er := range s.Errors() {
			hr.Inconcl["solver error: "+er]++
		}
	}
	e.Pool.CloseAll()
	hr.WallS = time.Since(t0).Seconds()
	if os.Getenv("VERIF_SLOWLOG") != "" {
		for l, n := range e.PrecByLabel {
			fmt.Fprintf(os.Stderr, "PRECISE x%d %s\n", n, l)
		}
	}
	hr.Functions = e.FunctionsEncoded()
	return hr, nil
}

func cmdRun(args []string) int {
	fs := flag.NewFlagSet("run", flag.ExitOnError)
	workers := fs.Int("workers", 0, "")
	unwind := fs.Int("unwind", 0, "")
	verbose := fs.Bool("v", false, "")
	bounds := fs.String("bound", "", "k=v,k=v overrides of zz.Bound")
	fs.Parse(args)
	pendingVars = map[string]int{}
	for _, kv := range strings.Split(*bounds, ",") {
		if p := strings.SplitN(kv, "=", 2); len(p) == 2 {
			n, _ := strconv.Atoi(p[1])
			pendingVars[p[0]] = n
		}
	}
	rest := fs.Args()
	if len(rest) < 2 {
		usage()
	}
	l, err := loadProgram([]string{rest[0]}, nil)
	if err != nil {
		fmt.Println("INCONCLUSIVE", err)
		return 2
	}
	cfg := defaultCfg()
	if *workers > 0 {
		cfg.Workers = *workers
	}
	if *unwind > 0 {
		cfg.Unwind = *unwind
	}
	rc := 0
	for _, h := range rest[1:] {
		hr, err := runHarness(l, rest[0], h, cfg, nil)
		if err != nil {
			fmt.Println("INCONCLUSIVE", err)
			return 2
		}
		printHarness(hr, *verbose)
		if len(hr.Violations) > 0 {
			rc = 1
		} else if len(hr.Inconcl) > 0 || len(hr.Unknown) > 0 {
			if rc == 0 {
				rc = 2
			}
		}
	}
	return rc
}

func printHarness(hr *HarnessResult, verbose bool) {
	fmt.Printf("harness %s: paths=%d ends=%v obligations=%d discharged=%d violated=%d unknown=%d queries=%d (cache %d, precise %d in %.1fs) solver=%.2fs wall=%.2fs\n",
		hr.Name, hr.Paths, hr.Ends, hr.Obligations, hr.Discharged, len(hr.Violations), len(hr.Unknown), hr.Queries, hr.CacheHits, hr.PrecQ, hr.PrecS, hr.SolverS, hr.WallS)
	var labels []string
	for l := range hr.ByLabel {
		labels = append(labels, l)
	}
	sort.Strings(labels)
	for _, l := range labels {
		fmt.Printf("  %-60s ok=%d bad=%d\n", l, hr.ByLabel[l][0], hr.ByLabel[l][1])
	}
	fmt.Printf("  reached: %v\n", hr.Reached)
	if len(hr.Panics) > 0 {
		fmt.Printf("  panics: %v\n", hr.Panics)
	}
	for m, n := range hr.Inconcl {
		fmt.Printf("  INCONCLUSIVE x%d: %s\n", n, m)
	}
	ur := map[string]int{}
	for _, u := range hr.Unknown {
		ur[u.Label+" => "+u.Res]++
	}
	for m, n := range ur {
		fmt.Printf("  UNKNOWN x%d: %s\n", n, m)
	}
	seen := map[string]bool{}
	for _, v := range hr.Violations {
		if seen[v.Label] && !verbose {
			continue
		}
		seen[v.Label] = true
		cp := *v.Cex
		if !verbose {
			cp.PathCond = nil
		}
		b, _ := json.Marshal(cp)
		if len(b) > 1800 && !verbose {
			b = append(b[:1800], "..."...)
		}
		fmt.Printf("  CEX %s: %s\n", v.Label, b)
	}
	if verbose {
		for _, f := range hr.Functions {
			fmt.Printf("  fn %v\n", f)
		}
		fmt.Printf("  models: %v\n", hr.ModelsHit)
	}
}

func runCmd(dir string, env []string, timeout time.Duration, name string, args ...string) (string, error) {
	cmd := exec.Command(name, args...)
	cmd.Dir = dir
	cmd.Env = env
	done := make(chan struct{})
	var out []byte
	var err error
	go func() { out, err = cmd.CombinedOutput(); close(done) }()
	select {
	case <-done:
	case <-time.After(timeout):
		if cmd.Process != nil {
			cmd.Process.Kill()
		}
		<-done
		return string(out), fmt.Errorf("timeout after %s", timeout)
	}
	return string(out), err
}
