package main

import (
	"fmt"
	"go/types"
	"reflect"
	"strings"
)

func jsonName(f *types.Var, tag string) (string, bool) {
	if !f.Exported() {
		return "", false
	}
	t := reflect.StructTag(tag).Get("json")
	if t == "-" {
		return "", false
	}
	name := strings.Split(t, ",")[0]
	if name == "" {
		name = f.Name()
	}
	return strings.ToLower(name), true
}

// jsonCopy decodes the structured document (sv, st) into a value of type dt starting from dv.
func (w *Worker) jsonCopy(s *State, sv Value, st types.Type, dv Value, dt types.Type) Value {
	// a pointer-typed source field: nil means the member is absent from the document
	if sp, ok := st.Underlying().(*types.Pointer); ok {
		p, _ := sv.(PtrV)
		if p.Obj == 0 {
			return dv
		}
		return w.jsonCopy(s, s.load(p), sp.Elem(), dv, dt)
	}
	if isTimeType(dt) {
		if _, ok := sv.(TimeV); ok {
			return sv
		}
		return dv
	}
	switch du := dt.Underlying().(type) {
	case *types.Struct:
		su, ok := st.Underlying().(*types.Struct)
		ssv, ok2 := sv.(StructV)
		if !ok || !ok2 {
			return dv
		}
		out := StructV{F: append([]Value(nil), dv.(StructV).F...)}
		for i := 0; i < du.NumFields(); i++ {
			dn, ok := jsonName(du.Field(i), du.Tag(i))
			if !ok {
				continue
			}
			for j := 0; j < su.NumFields(); j++ {
				sn, ok := jsonName(su.Field(j), su.Tag(j))
				if ok && sn == dn {
					out.F[i] = w.jsonCopy(s, ssv.F[j], su.Field(j).Type(), out.F[i], du.Field(i).Type())
				}
			}
		}
		return out
	case *types.Basic:
		sb, ok := st.Underlying().(*types.Basic)
		if !ok {
			return dv
		}
		switch {
		case du.Info()&types.IsString != 0 && sb.Info()&types.IsString != 0,
			du.Info()&types.IsInteger != 0 && sb.Info()&types.IsInteger != 0,
			du.Info()&types.IsBoolean != 0 && sb.Info()&types.IsBoolean != 0:
			return sv
		}
		return dv
	case *types.Slice:
		ss, ok := st.Underlying().(*types.Slice)
		sl, ok2 := sv.(SliceV)
		if !ok || !ok2 {
			return dv
		}
		if sl.Obj == 0 {
			return SliceV{}
		}
		el := sliceElems(s, sl)
		a := ArrayV{E: make([]Value, len(el))}
		for i := range el {
			a.E[i] = w.jsonCopy(s, el[i], ss.Elem(), zero(du.Elem()), du.Elem())
		}
		p := s.alloc(a)
		return SliceV{p.Obj, 0, len(el), len(el)}
	case *types.Pointer:
		// *T target: allocate
		inner := w.jsonCopy(s, sv, st, zero(du.Elem()), du.Elem())
		return s.alloc(inner)
	}
	return dv
}

func init() {
	I := intrinsics
	I["encoding/json.Marshal"] = func(c *icall) ([]*State, bool) {
		iv := c.args[0].(IfaceV)
		val, typ := iv.V, iv.Typ
		if p, ok := val.(PtrV); ok && p.Obj != 0 {
			val = c.s.load(p)
			typ = typ.(*types.Pointer).Elem()
		}
		p := c.s.alloc(BlobV{Kind: "json", Val: val, Typ: typ, Bad: "false"})
		// a document is at least as long as each string it carries (and never empty)
		doc := c.w.blobStr(c.s, p.Obj)
		c.s.addPC("(>= (str.len " + doc + ") 2)")
		var walk func(v Value, depth int)
		walk = func(v Value, depth int) {
			if depth > 4 {
				return
			}
			switch x := v.(type) {
			case StrV:
				if x.K == SOpaque {
					c.s.addPC("(>= (str.len " + doc + ") " + strLen(x).T + ")")
				}
			case StructV:
				for _, f := range x.F {
					walk(f, depth+1)
				}
			case SliceV:
				if x.Obj != 0 && x.Len >= 0 {
					for _, e := range sliceElems(c.s, x) {
						walk(e, depth+1)
					}
				}
			}
		}
		walk(val, 0)
		c.setTuple(SliceV{p.Obj, 0, -1, -1}, IfaceV{})
		return nil, false
	}
	I["encoding/json.Unmarshal"] = func(c *icall) ([]*State, bool) {
		return c.w.jsonUnmarshal(c, c.args[0].(SliceV), c.args[1].(IfaceV))
	}
	I["encoding/json.NewEncoder"] = func(c *icall) ([]*State, bool) {
		c.set(c.s.alloc(OpaqueObj{Kind: "jsonenc", Data: c.args[0]}))
		return nil, false
	}
	I["(*encoding/json.Encoder).Encode"] = func(c *icall) ([]*State, bool) {
		o := c.s.Heap[c.args[0].(PtrV).Obj].(OpaqueObj)
		iv := c.args[1].(IfaceV)
		val, typ := iv.V, iv.Typ
		if p, ok := val.(PtrV); ok && p.Obj != 0 {
			val = c.s.load(p)
			typ = typ.(*types.Pointer).Elem()
		}
		p := c.s.alloc(BlobV{Kind: "json", Val: val, Typ: typ, Bad: "false"})
		// Encode returns error; Write returns (int, error): route through a tiny adapter
		wr := o.Data.(IfaceV)
		c.set(IfaceV{})
		c.dest = nil
		forks, done := c.tailInvoke(wr, "Write", []Value{SliceV{p.Obj, 0, -1, -1}})
		return forks, done
	}
}

func (w *Worker) jsonUnmarshal(c *icall, data SliceV, target IfaceV) ([]*State, bool) {
	s := c.s
	depth := len(s.stack())
	dest := c.dest
	setRes := func(st *State, v Value) {
		if dest != nil {
			st.stack()[depth-1].Env[dest] = v
		}
	}
	errV := c.opaqueErr(litStr("json: cannot decode"))
	tp, ok := target.V.(PtrV)
	if !ok || tp.Obj == 0 {
		setRes(s, errV)
		return nil, false
	}
	telem := target.Typ.(*types.Pointer).Elem()
	if _, isIface := telem.Underlying().(*types.Interface); isIface {
		// json.Unmarshal(b, &v) with v an interface holding a pointer: decode into the pointee
		if inner, ok := s.load(tp).(IfaceV); ok && !inner.IsNil() {
			if _, isPtr := inner.V.(PtrV); isPtr {
				return w.jsonUnmarshal(c, data, inner)
			}
		}
	}
	if data.Obj != 0 {
		if b, ok := s.Heap[data.Obj].(BlobV); ok && b.Kind == "json" {
			return w.branch(s, b.Bad,
				func(st *State) { setRes(st, errV) },
				func(st *State) {
					st.store(tp, w.jsonCopy(st, b.Val, b.Typ, st.load(tp), telem))
					if b.Mis {
						// encoding/json keeps decoding after a type mismatch and reports it at the end
						setRes(st, c.opaqueErr(litStr("json: cannot unmarshal value of the wrong type")))
						return
					}
					setRes(st, IfaceV{})
				})
		}
	}
	// unknown bytes: decoding fails, or yields arbitrary field values
	okv := w.E.freshVar(s, "json.ok", "Bool")
	key := s.nextKey("json.ok")
	s.Nondet = append(s.Nondet, NondetRec{Key: key, Term: okv, Kind: "bool"})
	var out []*State
	bad := s.Fork()
	bad.addPC(tNot(okv))
	setRes(bad, errV)
	out = append(out, bad)
	s.addPC(okv)
	forks, done := w.havocInto(s, "json", telem, func(st *State, v Value) {
		st.store(tp, v)
		setRes(st, IfaceV{})
	})
	if !done {
		return append(out, s), true
	}
	return append(out, forks...), true
}

var _ = fmt.Sprint
