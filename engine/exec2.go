package main

import (
	"fmt"
	"go/types"
	"strings"
	"unicode/utf8"

	"golang.org/x/tools/go/ssa"
)

func concreteInt(v Value, what string) int {
	iv, ok := v.(IntV)
	if !ok || !iv.C {
		panic(engineErr("symbolic integer where a concrete one is needed (" + what + "): " + show(v)))
	}
	return int(iv.N)
}

// mapChoice describes one outcome of looking a key up in a map.
type mapChoice struct {
	Idx  int // -1: absent
	Cond string
}

func keyEq(a, b Value) string { return valueEq(a, b) }

// mapFind enumerates the possible positions of key in md (keys are pairwise distinct under the PC).
func mapFind(md MapData, key Value) []mapChoice {
	var out []mapChoice
	var neg []string
	for i := range md.K {
		r := keyEq(md.K[i], key)
		if r == "false" {
			continue
		}
		if r == "true" {
			return []mapChoice{{i, "true"}}
		}
		out = append(out, mapChoice{i, tAnd(append(append([]string(nil), neg...), r)...)})
		neg = append(neg, tNot(r))
	}
	out = append(out, mapChoice{-1, tAnd(neg...)})
	return out
}

// forkChoices forks s over the feasible choices and applies fn to each resulting state.
// guarded runs the set-up of one fork side; a Go panic there belongs to that side only.
func guarded(st *State, fn func()) {
	defer func() {
		if r := recover(); r != nil {
			if gp, ok := r.(goPanic); ok {
				st.PanicMsg = gp.Msg
				return
			}
			panic(r)
		}
	}()
	fn()
}

func (w *Worker) forkChoices(s *State, conds []string, fn0 func(st *State, i int)) ([]*State, bool) {
	fn := func(st *State, i int) { guarded(st, func() { fn0(st, i) }) }
	if len(conds) == 1 && conds[0] == "true" {
		fn(s, 0)
		return nil, false
	}
	var feas []int
	for i, c := range conds {
		if w.feasible(s, c) {
			feas = append(feas, i)
		}
	}
	if len(feas) == 0 {
		return nil, true
	}
	if len(feas) == 1 {
		s.addPC(conds[feas[0]])
		fn(s, feas[0])
		return nil, false
	}
	var out []*State
	for k, i := range feas {
		st := s
		if k < len(feas)-1 {
			st = s.Fork()
		}
		st.addPC(conds[i])
		fn(st, i)
		out = append(out, st)
	}
	return out, true
}

func (w *Worker) stepMore(s *State, f *Frame, in ssa.Instruction) ([]*State, bool) {
	adv := func() { f.PC++ }
	depth := len(s.stack())
	cur := func(st *State) *Frame { return st.stack()[depth-1] }
	switch x := in.(type) {
	case *ssa.MakeSlice:
		n := concreteInt(w.val(s, f, x.Len), "make len")
		c := concreteInt(w.val(s, f, x.Cap), "make cap")
		if n < 0 || c < n || c > 1<<16 {
			panic(engineErr("make: bad or too large size"))
		}
		et := x.Type().Underlying().(*types.Slice).Elem()
		a := ArrayV{E: make([]Value, c)}
		z := zero(et)
		for i := range a.E {
			a.E[i] = z
		}
		p := s.alloc(a)
		f.Env[x] = SliceV{p.Obj, 0, n, c}
		adv()
	case *ssa.Slice:
		v := w.val(s, f, x.X)
		if b, ok := v.(SliceV); ok && b.Len == -1 && b.Obj != 0 && (x.Low != nil || x.High != nil) {
			return w.sliceBlob(s, f, x, b)
		}
		if sv, ok := v.(StrV); ok {
			symbolic := false
			if x.Low != nil {
				if iv, ok := w.val(s, f, x.Low).(IntV); ok && !iv.C {
					symbolic = true
				}
			}
			if x.High != nil {
				if iv, ok := w.val(s, f, x.High).(IntV); ok && !iv.C {
					symbolic = true
				}
			}
			if symbolic || sv.K == SOpaque {
				return w.sliceStrSym(s, f, x, sv)
			}
		}
		lo, hi := 0, -1
		if x.Low != nil {
			lo = concreteInt(w.val(s, f, x.Low), "slice low")
		}
		if x.High != nil {
			hi = concreteInt(w.val(s, f, x.High), "slice high")
		}
		switch b := v.(type) {
		case PtrV: // pointer to array
			arr := s.load(b).(ArrayV)
			if len(b.Path) != 0 {
				panic(engineErr("slice of nested array"))
			}
			if hi < 0 {
				hi = len(arr.E)
			}
			if lo < 0 || hi > len(arr.E) || lo > hi {
				panic(goPanic{"slice bounds out of range"})
			}
			f.Env[x] = SliceV{b.Obj, lo, hi - lo, len(arr.E) - lo}
		case SliceV:
			if b.Len == -1 {
				if lo == 0 && hi < 0 {
					f.Env[x] = b
					break
				}
				panic(engineErr("slicing an opaque byte string"))
			}
			if hi < 0 {
				hi = b.Len
			}
			capv := b.Cap
			if x.Max != nil {
				capv = concreteInt(w.val(s, f, x.Max), "slice max")
			}
			if lo < 0 || hi > b.Cap || lo > hi || capv > b.Cap {
				panic(goPanic{"slice bounds out of range"})
			}
			if b.Obj == 0 {
				f.Env[x] = SliceV{}
				break
			}
			f.Env[x] = SliceV{b.Obj, b.Off + lo, hi - lo, capv - lo}
		case StrV:
			f.Env[x] = strSlice(b, lo, hi)
		default:
			panic(engineErr(fmt.Sprintf("slice of %T", v)))
		}
		adv()
	case *ssa.IndexAddr:
		iv := w.val(s, f, x.Index).(IntV)
		switch b := w.val(s, f, x.X).(type) {
		case PtrV:
			arr := s.load(b).(ArrayV)
			if !iv.C {
				// symbolic index into an array: fork over positions
				n := len(arr.E)
				var conds []string
				for i := 0; i < n; i++ {
					conds = append(conds, tEq(iv.T, fmt.Sprint(i)))
				}
				conds = append(conds, "(or (< "+iv.T+" 0) (>= "+iv.T+" "+fmt.Sprint(n)+"))")
				return w.forkChoices(s, conds, func(st *State, i int) {
					if i == n {
						panic(goPanic{"index out of range"})
					}
					cf := cur(st)
					cf.Env[x] = PtrV{b.Obj, extPath(b.Path, i)}
					cf.PC++
				})
			}
			idx := concreteInt(iv, "array index")
			if idx < 0 || idx >= len(arr.E) {
				panic(goPanic{"index out of range"})
			}
			f.Env[x] = PtrV{b.Obj, extPath(b.Path, idx)}
		case SliceV:
			if b.Len == -1 {
				panic(engineErr("indexing an opaque byte string"))
			}
			if !iv.C {
				// symbolic index into a concrete-length slice: fork over positions
				var conds []string
				for i := 0; i < b.Len; i++ {
					conds = append(conds, tEq(iv.T, fmt.Sprint(i)))
				}
				conds = append(conds, "(or (< "+iv.T+" 0) (>= "+iv.T+" "+fmt.Sprint(b.Len)+"))")
				return w.forkChoices(s, conds, func(st *State, i int) {
					if i == b.Len {
						panic(goPanic{"index out of range"})
					}
					cf := cur(st)
					cf.Env[x] = PtrV{b.Obj, []int{b.Off + i}}
					cf.PC++
				})
			}
			idx := int(iv.N)
			if idx < 0 || idx >= b.Len {
				panic(goPanic{"index out of range"})
			}
			f.Env[x] = PtrV{b.Obj, []int{b.Off + idx}}
		default:
			panic(engineErr(fmt.Sprintf("indexaddr of %T", b)))
		}
		adv()
	case *ssa.Index:
		idx := concreteInt(w.val(s, f, x.Index), "index")
		switch b := w.val(s, f, x.X).(type) {
		case ArrayV:
			if idx < 0 || idx >= len(b.E) {
				panic(goPanic{"index out of range"})
			}
			f.Env[x] = b.E[idx]
		case StrV:
			f.Env[x] = strIndex(b, idx)
		default:
			panic(engineErr(fmt.Sprintf("index of %T", b)))
		}
		adv()
	case *ssa.MakeMap:
		p := s.alloc(MapData{})
		f.Env[x] = MapV{p.Obj}
		adv()
	case *ssa.MapUpdate:
		m := w.val(s, f, x.Map).(MapV)
		if m.Obj == 0 {
			panic(goPanic{"assignment to entry in nil map"})
		}
		md := s.Heap[m.Obj].(MapData)
		k := w.val(s, f, x.Key)
		v := w.val(s, f, x.Value)
		ch := mapFind(md, k)
		conds := make([]string, len(ch))
		for i := range ch {
			conds[i] = ch[i].Cond
		}
		return w.forkChoices(s, conds, func(st *State, i int) {
			md := st.Heap[m.Obj].(MapData)
			nd := MapData{K: append([]Value(nil), md.K...), V: append([]Value(nil), md.V...)}
			if ch[i].Idx >= 0 {
				nd.V[ch[i].Idx] = v
			} else {
				nd.K = append(nd.K, k)
				nd.V = append(nd.V, v)
			}
			st.Heap[m.Obj] = nd
			cur(st).PC++
		})
	case *ssa.Lookup:
		if sv, ok := w.val(s, f, x.X).(StrV); ok {
			iv := w.val(s, f, x.Index).(IntV)
			f.Env[x] = strIndex(sv, concreteInt(iv, "string index"))
			adv()
			return nil, false
		}
		m := w.val(s, f, x.X).(MapV)
		k := w.val(s, f, x.Index)
		vt := x.X.Type().Underlying().(*types.Map).Elem()
		res := func(v Value, found bool) Value {
			if x.CommaOk {
				return TupleV{[]Value{v, mkBool(found)}}
			}
			return v
		}
		if m.Obj == 0 {
			f.Env[x] = res(zero(vt), false)
			adv()
			return nil, false
		}
		md := s.Heap[m.Obj].(MapData)
		ch := mapFind(md, k)
		conds := make([]string, len(ch))
		for i := range ch {
			conds[i] = ch[i].Cond
		}
		return w.forkChoices(s, conds, func(st *State, i int) {
			cf := cur(st)
			if ch[i].Idx >= 0 {
				cf.Env[x] = res(md.V[ch[i].Idx], true)
			} else {
				cf.Env[x] = res(zero(vt), false)
			}
			cf.PC++
		})
	case *ssa.Range:
		switch c := w.val(s, f, x.X).(type) {
		case MapV:
			// iteration order: insertion order (Go's is unspecified; properties must not depend on it)
			n := 0
			var snap MapData
			if c.Obj != 0 {
				snap = s.Heap[c.Obj].(MapData)
				n = len(snap.K)
			}
			f.Env[x] = TupleV{[]Value{snap, mkInt(0), mkInt(int64(n))}}
		case StrV:
			cs, ok := c.chars()
			if !ok {
				panic(engineErr("range over opaque string"))
			}
			f.Env[x] = TupleV{[]Value{StrV{K: SChars, C: cs}, mkInt(0), mkInt(int64(len(cs)))}}
		default:
			panic(engineErr(fmt.Sprintf("range over %T", c)))
		}
		adv()
	case *ssa.Next:
		it := w.val(s, f, x.Iter).(TupleV)
		pos := concreteInt(it.E[1], "iterator")
		n := concreteInt(it.E[2], "iterator")
		if x.IsString {
			sv := it.E[0].(StrV)
			if pos >= n {
				f.Env[x] = TupleV{[]Value{mkBool(false), mkInt(0), mkInt(0)}}
			} else {
				// concrete bytes are decoded as UTF-8; a symbolic byte is one ASCII rune
				// (NondetChars draws bytes 0..127; recorded on the path for other sources)
				var buf []byte
				for k := pos; k < n && k < pos+4; k++ {
					ci := charInt(sv.C[k])
					if !ci.C {
						break
					}
					buf = append(buf, byte(ci.N))
				}
				if c0 := charInt(sv.C[pos]); !c0.C {
					s.addPC("(< " + c0.T + " 128)")
					f.Env[x] = TupleV{[]Value{mkBool(true), mkInt(int64(pos)), c0}}
					f.Env[x.Iter] = TupleV{[]Value{sv, mkInt(int64(pos + 1)), it.E[2]}}
				} else if buf[0] < utf8.RuneSelf {
					f.Env[x] = TupleV{[]Value{mkBool(true), mkInt(int64(pos)), c0}}
					f.Env[x.Iter] = TupleV{[]Value{sv, mkInt(int64(pos + 1)), it.E[2]}}
				} else {
					if !utf8.FullRune(buf) && pos+len(buf) < n {
						panic(engineErr("range over a string mixing a multi-byte prefix with symbolic bytes"))
					}
					r, size := utf8.DecodeRune(buf)
					f.Env[x] = TupleV{[]Value{mkBool(true), mkInt(int64(pos)), mkInt(int64(r))}}
					f.Env[x.Iter] = TupleV{[]Value{sv, mkInt(int64(pos + size)), it.E[2]}}
				}
			}
		} else {
			mt := x.Iter.(*ssa.Range).X.Type().Underlying().(*types.Map)
			if pos >= n {
				f.Env[x] = TupleV{[]Value{mkBool(false), zero(mt.Key()), zero(mt.Elem())}}
			} else {
				md := it.E[0].(MapData)
				f.Env[x] = TupleV{[]Value{mkBool(true), md.K[pos], md.V[pos]}}
				f.Env[x.Iter] = TupleV{[]Value{md, mkInt(int64(pos + 1)), it.E[2]}}
			}
		}
		adv()
	case *ssa.TypeAssert:
		iv := w.val(s, f, x.X).(IfaceV)
		ok := false
		var res Value
		_, toIface := x.AssertedType.Underlying().(*types.Interface)
		if !iv.IsNil() && iv.Typ != nil {
			if toIface {
				ok = types.Implements(iv.Typ, x.AssertedType.Underlying().(*types.Interface))
				res = iv
			} else {
				ok = types.Identical(iv.Typ, x.AssertedType)
				res = iv.V
			}
		} else if iv.Opaque != "" && toIface {
			// opaque errors implement error only
			if it := x.AssertedType.Underlying().(*types.Interface); it.NumMethods() == 1 && it.Method(0).Name() == "Error" {
				ok, res = true, iv
			}
		}
		if !ok {
			if toIface {
				res = IfaceV{}
			} else {
				res = zero(x.AssertedType)
			}
		}
		if x.CommaOk {
			f.Env[x] = TupleV{[]Value{res, mkBool(ok)}}
		} else if !ok {
			panic(goPanic{"failed type assertion"})
		} else {
			f.Env[x] = res
		}
		adv()
	case *ssa.Panic:
		v := w.val(s, f, x.X)
		panic(goPanic{"explicit panic(" + show(v) + ")"})
	case *ssa.MakeChan:
		n := concreteInt(w.val(s, f, x.Size), "chan size")
		p := s.alloc(ChanData{Cap: n})
		f.Env[x] = ChanV{p.Obj}
		adv()
	case *ssa.Send:
		return w.chanSend(s, f, w.val(s, f, x.Chan).(ChanV), w.val(s, f, x.X))
	case *ssa.Go:
		return w.goStmt(s, f, x)
	case *ssa.Select:
		return w.selectStmt(s, f, x)
	case *ssa.DebugRef:
		adv()
	default:
		panic(engineErr(fmt.Sprintf("unsupported instruction %T: %s", in, in)))
	}
	return nil, false
}

func charInt(t string) IntV {
	var n int64
	if _, err := fmt.Sscanf(t, "%d", &n); err == nil && fmt.Sprint(n) == t {
		return mkInt(n)
	}
	return symInt(t)
}

func (w *Worker) builtin(s *State, f *Frame, x *ssa.Call, name string, args []Value, argVals []ssa.Value) ([]*State, bool) {
	set := func(v Value) { f.Env[x] = v }
	switch name {
	case "len", "cap":
		switch a := args[0].(type) {
		case SliceV:
			if a.Len == -1 {
				b := s.Heap[a.Obj].(BlobV)
				if b.Kind == "str" {
					set(sumLen(b.S))
				} else {
					set(symInt("(str.len " + w.blobStr(s, a.Obj) + ")"))
				}
			} else if name == "len" {
				set(mkInt(int64(a.Len)))
			} else {
				set(mkInt(int64(a.Cap)))
			}
		case StrV:
			set(strLen(a))
		case MapV:
			n := 0
			if a.Obj != 0 {
				n = len(s.Heap[a.Obj].(MapData).K)
			}
			set(mkInt(int64(n)))
		case ArrayV:
			set(mkInt(int64(len(a.E))))
		case PtrV:
			set(mkInt(int64(len(s.load(a).(ArrayV).E))))
		case ChanV:
			n := 0
			if a.Obj != 0 {
				n = len(s.Heap[a.Obj].(ChanData).Buf)
			}
			set(mkInt(int64(n)))
		default:
			panic(engineErr(fmt.Sprintf("len of %T", a)))
		}
	case "append":
		a := args[0].(SliceV)
		var elems []Value
		blobDone := false
		switch b := args[1].(type) {
		case SliceV:
			if b.Len == -1 || a.Len == -1 {
				// byte strings that are only passed around: the result is their concatenation
				as, bs := litStr(""), litStr("")
				if a.Obj != 0 {
					as = w.stringOfBytes(s, a).(StrV)
				}
				if b.Obj != 0 {
					bs = w.stringOfBytes(s, b).(StrV)
				}
				set(w.bytesOfString(s, strConcat(as, bs)))
				blobDone = true
				break
			}
			if b.Obj != 0 {
				arr := s.Heap[b.Obj].(ArrayV)
				elems = append(elems, arr.E[b.Off:b.Off+b.Len]...)
			}
		case StrV: // append([]byte, string...)
			cs, ok := b.chars()
			if !ok {
				// an opaque string appended to bytes: the result is the concatenation, as a byte string
				as := litStr("")
				if a.Obj != 0 {
					as = w.stringOfBytes(s, a).(StrV)
				}
				set(w.bytesOfString(s, strConcat(as, b)))
				blobDone = true
				break
			}
			for _, c := range cs {
				elems = append(elems, charInt(c))
			}
		}
		if blobDone {
			break
		}
		if len(elems) == 0 {
			set(a)
			break
		}
		if a.Obj != 0 && a.Len+len(elems) <= a.Cap {
			arr := s.Heap[a.Obj].(ArrayV)
			na := ArrayV{E: append([]Value(nil), arr.E...)}
			copy(na.E[a.Off+a.Len:], elems)
			s.Heap[a.Obj] = na
			set(SliceV{a.Obj, a.Off, a.Len + len(elems), a.Cap})
			break
		}
		need := a.Len + len(elems)
		nc := need
		if 2*a.Cap > nc {
			nc = 2 * a.Cap
		}
		na := ArrayV{E: make([]Value, nc)}
		if a.Obj != 0 {
			arr := s.Heap[a.Obj].(ArrayV)
			copy(na.E, arr.E[a.Off:a.Off+a.Len])
		}
		copy(na.E[a.Len:], elems)
		var z Value
		if et, ok := x.Type().Underlying().(*types.Slice); ok {
			z = zero(et.Elem())
		}
		for i := need; i < nc; i++ {
			na.E[i] = z
		}
		p := s.alloc(na)
		set(SliceV{p.Obj, 0, need, nc})
	case "copy":
		dst := args[0].(SliceV)
		var src []Value
		switch b := args[1].(type) {
		case SliceV:
			if b.Len == -1 {
				panic(engineErr("copy from opaque byte string"))
			}
			if b.Obj != 0 {
				src = s.Heap[b.Obj].(ArrayV).E[b.Off : b.Off+b.Len]
			}
		case StrV:
			cs, ok := b.chars()
			if !ok {
				panic(engineErr("copy from opaque string"))
			}
			for _, c := range cs {
				src = append(src, charInt(c))
			}
		}
		n := len(src)
		if dst.Len < n {
			n = dst.Len
		}
		if n > 0 {
			arr := s.Heap[dst.Obj].(ArrayV)
			na := ArrayV{E: append([]Value(nil), arr.E...)}
			copy(na.E[dst.Off:dst.Off+n], src[:n])
			s.Heap[dst.Obj] = na
		}
		set(mkInt(int64(n)))
	case "delete":
		m := args[0].(MapV)
		if m.Obj == 0 {
			break
		}
		md := s.Heap[m.Obj].(MapData)
		ch := mapFind(md, args[1])
		conds := make([]string, len(ch))
		for i := range ch {
			conds[i] = ch[i].Cond
		}
		depth := len(s.stack())
		return w.forkChoices(s, conds, func(st *State, i int) {
			if ch[i].Idx >= 0 {
				md := st.Heap[m.Obj].(MapData)
				nd := MapData{}
				for j := range md.K {
					if j != ch[i].Idx {
						nd.K = append(nd.K, md.K[j])
						nd.V = append(nd.V, md.V[j])
					}
				}
				st.Heap[m.Obj] = nd
			}
			_ = depth
		})
	case "close":
		c := args[0].(ChanV)
		cd := s.Heap[c.Obj].(ChanData)
		if cd.Closed {
			panic(goPanic{"close of closed channel"})
		}
		cd.Closed = true
		s.Heap[c.Obj] = cd
	case "panic":
		panic(goPanic{"panic(" + show(args[0]) + ")"})
	case "recover":
		set(IfaceV{})
	case "print", "println":
	case "min", "max":
		a, b := args[0].(IntV), args[1].(IntV)
		if !(a.C && b.C) {
			panic(engineErr("symbolic min/max"))
		}
		if (name == "min") == (a.N < b.N) {
			set(a)
		} else {
			set(b)
		}
	case "ssa:wrapnilchk":
		p, ok := args[0].(PtrV)
		if ok && p.Obj == 0 {
			panic(goPanic{"nil pointer dereference (method value)"})
		}
		set(args[0])
	default:
		panic(engineErr("builtin " + name))
	}
	return nil, false
}

// sumLen: see strLen (kept as a name for the call sites that stress the decomposition).
func sumLen(a StrV) IntV { return strLen(a) }

// sliceBlob is b[lo:hi] for an opaque byte string with (possibly symbolic) bounds: a new
// opaque byte string (str.substr), or - when the path condition forces a bound onto a
// boundary between the leaves of a concatenation - the leaves themselves.
func (w *Worker) sliceBlob(s *State, f *Frame, x *ssa.Slice, b SliceV) ([]*State, bool) {
	if x.Max != nil {
		panic(engineErr("3-index slice of an opaque byte string"))
	}
	depth := len(s.stack())
	str := w.stringOfBytes(s, b).(StrV)
	total := sumLen(str)
	lo := mkInt(0)
	hi := total
	if x.Low != nil {
		lo = w.val(s, f, x.Low).(IntV)
	}
	if x.High != nil {
		hi = w.val(s, f, x.High).(IntV)
	}
	inRange := tAnd("(<= 0 "+lo.T+")", "(<= "+lo.T+" "+hi.T+")", "(<= "+hi.T+" "+total.T+")")
	return w.branch(s, inRange,
		func(st *State) {
			res := w.substrOf(st, str, lo, hi, total)
			p := st.alloc(BlobV{Kind: "str", S: res})
			cf := st.stack()[depth-1]
			cf.Env[x] = SliceV{p.Obj, 0, -1, -1}
			cf.PC++
		},
		func(st *State) { panic(goPanic{"slice bounds out of range"}) })
}

// substrOf computes str[lo:hi] (0 <= lo <= hi <= len(str) holds on the path).
func (w *Worker) substrOf(st *State, str StrV, lo, hi, total IntV) StrV {
	forced := func(c string) bool { return !w.feasible(st, tNot(c)) }
	if str.K == SOpaque {
		leaves := flattenConcat(str.T)
		if len(leaves) > 1 {
			// prefix sums of the leaf lengths; find leaf boundaries the bounds are forced onto
			sums := []string{"0"}
			acc := []string{}
			for _, l := range leaves {
				acc = append(acc, strLen(opaqueStr(l)).T)
				if len(acc) == 1 {
					sums = append(sums, acc[0])
				} else {
					sums = append(sums, "(+ "+strings.Join(acc, " ")+")")
				}
			}
			li, hj := -1, -1
			for i, sm := range sums {
				if li < 0 && forced(tEq(lo.T, sm)) {
					li = i
				}
				if forced(tEq(hi.T, sm)) {
					hj = i
				}
			}
			if li >= 0 && hj >= li {
				out := litStr("")
				for _, l := range leaves[li:hj] {
					out = strConcat(out, opaqueStr(l))
				}
				return out
			}
		}
	}
	n := "(- " + hi.T + " " + lo.T + ")"
	r := opaqueStr("(str.substr " + str.term() + " " + lo.T + " " + n + ")")
	if r.K == SOpaque {
		st.addPC(tEq("(str.len "+r.T+")", n))
	}
	return r
}

// sliceStrSym is str[lo:hi] with a symbolic bound: bounds check, then substrOf.
func (w *Worker) sliceStrSym(s *State, f *Frame, x *ssa.Slice, str StrV) ([]*State, bool) {
	depth := len(s.stack())
	if str.K == SChars {
		str = opaqueStr(str.term())
	}
	total := sumLen(str)
	lo := mkInt(0)
	hi := total
	if x.Low != nil {
		lo = w.val(s, f, x.Low).(IntV)
	}
	if x.High != nil {
		hi = w.val(s, f, x.High).(IntV)
	}
	inRange := tAnd("(<= 0 "+lo.T+")", "(<= "+lo.T+" "+hi.T+")", "(<= "+hi.T+" "+total.T+")")
	return w.branch(s, inRange,
		func(st *State) {
			cf := st.stack()[depth-1]
			cf.Env[x] = w.substrOf(st, str, lo, hi, total)
			cf.PC++
		},
		func(st *State) { panic(goPanic{"slice bounds out of range"}) })
}
