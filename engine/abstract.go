package main

import (
	"strconv"
	"strings"
	"sync"
)

// EUF abstraction of the string theory.
//
// Feasibility queries (thousands per harness) do not need the sequence solver: every
// string-sorted term is mapped to Int, every string literal to a distinct integer,
// every str.* operation to an uninterpreted function. The abstraction OVER-approximates:
// a real string model induces a model of the abstract query, so abstract-unsat implies
// unsat (sound pruning, sound discharge of assertions); abstract-sat proves nothing and
// is re-checked on the precise (sequence-theory) solver where it matters - assertions and
// reach witnesses. Measured on the C01 ladder: 40-140 ms per query in z3/cvc5 with
// String terms vs. ~1 ms abstracted.

var (
	absMu    sync.Mutex
	absLits  = map[string]int{`""`: 0}
	absReg   = map[string]int{}
	absCache sync.Map // term -> abstracted term
)

const absPrelude = `(declare-fun sconcat (Int Int) Int)
(declare-fun slen (Int) Int)
(declare-fun sprefix (Int Int) Bool)
(declare-fun ssuffix (Int Int) Bool)
(declare-fun scontains (Int Int) Bool)
(declare-fun ssubstr (Int Int Int) Int)
(declare-fun sfromint (Int) Int)
(declare-fun stoint (Int) Int)
(declare-fun sindexof (Int Int Int) Int)
(declare-fun sless (Int Int) Bool)
(declare-fun sinre (Int Int) Bool)
(declare-fun sfromcode (Int) Int)
(declare-fun stocode (Int) Int)
(declare-fun sat (Int Int) Int)
(declare-fun sreplace (Int Int Int) Int)
`

var absOps = map[string]string{
	"str.len": "slen", "str.prefixof": "sprefix", "str.suffixof": "ssuffix", "str.contains": "scontains", "str.substr": "ssubstr",
	"str.from_int": "sfromint", "str.to_int": "stoint", "str.indexof": "sindexof", "str.<": "sless", "str.from_code": "sfromcode",
	"str.to_code": "stocode", "str.at": "sat", "str.replace": "sreplace", "str.in_re": "sinre",
}

func litID(lit string) int {
	absMu.Lock()
	defer absMu.Unlock()
	id, ok := absLits[lit]
	if !ok {
		id = len(absLits)
		absLits[lit] = id
	}
	return id
}

func regID(t string) int {
	absMu.Lock()
	defer absMu.Unlock()
	id, ok := absReg[t]
	if !ok {
		id = len(absReg) + 1
		absReg[t] = id
	}
	return id
}

// abstractSMT rewrites one SMT-LIB command or term.
func abstractSMT(t string) string {
	if !strings.Contains(t, "str.") && !strings.Contains(t, `"`) && !strings.Contains(t, "String") && !strings.Contains(t, "re.") {
		return t
	}
	if v, ok := absCache.Load(t); ok {
		return v.(string)
	}
	var b strings.Builder
	absRewrite(&b, t, 0)
	r := b.String()
	absCache.Store(t, r)
	return r
}

// absRewrite copies s[i:] into b while rewriting; returns the index after the parsed prefix
// (it processes the whole string).
func absRewrite(b *strings.Builder, s string, i int) int {
	for i < len(s) {
		c := s[i]
		switch {
		case c == '"':
			j := i + 1
			for j < len(s) {
				if s[j] == '"' {
					if j+1 < len(s) && s[j+1] == '"' {
						j += 2
						continue
					}
					break
				}
				j++
			}
			lit := s[i : j+1]
			id := litID(lit)
			if id == 0 {
				b.WriteString("0")
			} else {
				b.WriteString("(- " + strconv.Itoa(id) + ")")
			}
			i = j + 1
		case c == '(':
			// look at the head symbol
			j := i + 1
			for j < len(s) && s[j] != ' ' && s[j] != ')' && s[j] != '(' {
				j++
			}
			head := s[i+1 : j]
			switch {
			case strings.HasPrefix(head, "re.") || head == "str.to_re":
				// a regular expression term: replace the whole subterm by an id
				end := matchParen(s, i)
				b.WriteString(strconv.Itoa(regID(s[i : end+1])))
				i = end + 1
			case head == "str.++":
				// n-ary concat -> right-nested binary sconcat
				end := matchParen(s, i)
				args := splitArgs(s[j:end])
				var parts []string
				for _, a := range args {
					var ab strings.Builder
					absRewrite(&ab, a, 0)
					parts = append(parts, ab.String())
				}
				r := parts[len(parts)-1]
				for k := len(parts) - 2; k >= 0; k-- {
					r = "(sconcat " + parts[k] + " " + r + ")"
				}
				b.WriteString(r)
				i = end + 1
			default:
				if op, ok := absOps[head]; ok {
					b.WriteString("(" + op)
					i = j
				} else {
					b.WriteByte('(')
					i++
				}
			}
		default:
			// symbol or other token
			j := i
			for j < len(s) && s[j] != ' ' && s[j] != ')' && s[j] != '(' && s[j] != '"' && s[j] != '\n' {
				j++
			}
			if j == i {
				b.WriteByte(c)
				i++
				continue
			}
			tok := s[i:j]
			if tok == "String" {
				b.WriteString("Int")
			} else {
				b.WriteString(tok)
			}
			i = j
		}
	}
	return i
}

// matchParen returns the index of the ')' matching the '(' at s[i].
func matchParen(s string, i int) int {
	depth := 0
	inStr := false
	for k := i; k < len(s); k++ {
		c := s[k]
		if inStr {
			if c == '"' {
				if k+1 < len(s) && s[k+1] == '"' {
					k++
					continue
				}
				inStr = false
			}
			continue
		}
		switch c {
		case '"':
			inStr = true
		case '(':
			depth++
		case ')':
			depth--
			if depth == 0 {
				return k
			}
		}
	}
	return len(s) - 1
}

// splitArgs splits " a (b c) "d e"" into top-level terms.
func splitArgs(s string) []string {
	var out []string
	i := 0
	for i < len(s) {
		for i < len(s) && (s[i] == ' ' || s[i] == '\n') {
			i++
		}
		if i >= len(s) {
			break
		}
		switch s[i] {
		case '(':
			e := matchParen(s, i)
			out = append(out, s[i:e+1])
			i = e + 1
		case '"':
			j := i + 1
			for j < len(s) {
				if s[j] == '"' {
					if j+1 < len(s) && s[j+1] == '"' {
						j += 2
						continue
					}
					break
				}
				j++
			}
			out = append(out, s[i:j+1])
			i = j + 1
		default:
			j := i
			for j < len(s) && s[j] != ' ' && s[j] != '\n' {
				j++
			}
			out = append(out, s[i:j])
			i = j
		}
	}
	return out
}
