package main

import (
	"bufio"
	"crypto/sha256"
	"fmt"
	"io"
	"os"
	"os/exec"
	"strings"
	"sync"
	"sync/atomic"
	"time"
)

// proc is one persistent SMT solver process whose assertion stack is kept aligned with
// the path condition being explored: a query re-uses the common prefix and pushes only
// the difference.
type proc struct {
	kind     string // z3 | cvc5
	abstract bool
	cmd      *exec.Cmd
	in       *bufio.Writer
	inRaw    io.WriteCloser
	out      *bufio.Reader
	stack    []string
	declared map[string]bool
	dead     bool
	dump     *os.File
	Errors   []string
	timeout  int
	curTO    int
}

var dumpN int
var dumpMu sync.Mutex

func newProc(kind string, abstract bool, timeoutMs int) *proc {
	var cmd *exec.Cmd
	switch kind {
	case "cvc5":
		cmd = exec.Command("cvc5", "--incremental", "--strings-exp", "--produce-models", "--lang=smt2", fmt.Sprintf("--tlimit-per=%d", timeoutMs))
	default:
		cmd = exec.Command(kind, "-in", fmt.Sprintf("-t:%d", timeoutMs))
	}
	in, _ := cmd.StdinPipe()
	outp, _ := cmd.StdoutPipe()
	cmd.Stderr = cmd.Stdout
	if err := cmd.Start(); err != nil {
		panic(err)
	}
	p := &proc{kind: kind, abstract: abstract, cmd: cmd, inRaw: in, in: bufio.NewWriterSize(in, 1<<16), out: bufio.NewReader(outp), declared: map[string]bool{}, timeout: timeoutMs, curTO: timeoutMs}
	if d := os.Getenv("VERIF_DUMP_SMT"); d != "" {
		dumpMu.Lock()
		dumpN++
		p.dump, _ = os.Create(fmt.Sprintf("%s.%d.smt2", d, dumpN))
		dumpMu.Unlock()
	}
	if kind == "cvc5" {
		p.send("(set-logic ALL)\n")
	} else {
		p.send("(set-option :global-declarations true)\n")
	}
	if abstract {
		p.send(absPrelude)
	}
	return p
}

func (p *proc) send(x string) {
	p.in.WriteString(x)
	if p.dump != nil {
		p.dump.WriteString(x)
	}
}

func (p *proc) close() {
	p.in.Flush()
	p.inRaw.Close()
	p.cmd.Process.Kill()
	p.cmd.Wait()
}

func (p *proc) tr(t string) string {
	if p.abstract {
		return abstractSMT(t)
	}
	return t
}

func (p *proc) ensure(decls []VarDecl) {
	for _, d := range decls {
		if !p.declared[d.Name] {
			p.declared[d.Name] = true
			if p.kind == "cvc5" && len(p.stack) > 0 {
				// cvc5 has no global declarations: declare at level 0
				p.send(fmt.Sprintf("(pop %d)\n", len(p.stack)))
				p.stack = p.stack[:0]
			}
			p.send(p.tr(d.Decl) + "\n")
		}
	}
}

func (p *proc) sync(pc []string) {
	k := 0
	for k < len(pc) && k < len(p.stack) && pc[k] == p.stack[k] {
		k++
	}
	if n := len(p.stack) - k; n > 0 {
		p.send(fmt.Sprintf("(pop %d)\n", n))
		p.stack = p.stack[:k]
	}
	for _, c := range pc[k:] {
		p.send("(push 1)\n(assert " + p.tr(c) + ")\n")
		p.stack = append(p.stack, c)
	}
}

func (p *proc) readLine() string {
	p.in.Flush()
	line, err := p.out.ReadString('\n')
	if err != nil {
		p.dead = true
		return "unknown:solver died"
	}
	return strings.TrimSpace(line)
}

// progressTick counts solver round trips; main's stall guard watches it.
var progressTick int64

func (p *proc) check(decls []VarDecl, pc, extra, wantVals []string, timeoutMs int) (string, map[string]string) {
	atomic.AddInt64(&progressTick, 1)
	defer atomic.AddInt64(&progressTick, 1)
	if p.dead {
		return "unknown:solver died", nil
	}
	p.ensure(decls)
	p.sync(pc)
	if p.kind != "cvc5" && timeoutMs != p.curTO {
		p.send(fmt.Sprintf("(set-option :timeout %d)\n", timeoutMs))
		p.curTO = timeoutMs
	}
	p.send("(push 1)\n")
	for _, c := range extra {
		p.send("(assert " + p.tr(c) + ")\n")
	}
	p.send("(check-sat)\n")
	tq := time.Now()
	// watchdog: a solver that ignores its own time limit (seen with cvc5 1.0's string solver and
	// with z3 model construction) is killed; the query is then answered "unknown:solver died"
	// and the owner starts a fresh process for the next one
	limit := time.Duration(timeoutMs)*3*time.Millisecond + 30*time.Second
	wd := time.AfterFunc(limit, func() {
		if p.cmd != nil && p.cmd.Process != nil {
			p.cmd.Process.Kill()
		}
	})
	defer wd.Stop()
	res := p.readLine()
	if d := time.Since(tq); d > 2*time.Second && os.Getenv("VERIF_SLOWLOG") != "" {
		last := ""
		if len(extra) > 0 {
			last = extra[len(extra)-1]
			if len(last) > 200 {
				last = last[:200]
			}
		}
		fmt.Fprintf(os.Stderr, "SLOW %s abstract=%v %.1fs res=%s pc=%d extra=%d last=%s\n", p.kind, p.abstract, d.Seconds(), res, len(pc), len(extra), last)
	}
	for res == "" || res == "unsupported" || strings.HasPrefix(res, "(error") {
		if strings.HasPrefix(res, "(error") {
			p.Errors = append(p.Errors, res)
			nxt := p.readLine()
			res = "unknown:" + res + " / " + nxt
			// the error may belong to the push or to an assertion, so the solver's frame stack can
			// no longer be trusted to mirror ours: this process answers nothing more (its owner
			// starts a fresh one for the next query)
			p.dead = true
			return res, nil
		}
		res = p.readLine()
	}
	var vals map[string]string
	if res == "sat" && len(wantVals) > 0 {
		vals = map[string]string{}
		for _, v := range wantVals {
			p.send("(get-value (" + p.tr(v) + "))\n")
			vals[v] = p.readSexp()
		}
	}
	p.send("(pop 1)\n")
	if res != "sat" && res != "unsat" && !strings.HasPrefix(res, "unknown") {
		res = "unknown:" + res
	}
	return res, vals
}

// readSexp reads one balanced s-expression "((term value))" and returns the value text.
func (p *proc) readSexp() string {
	p.in.Flush()
	depth := 0
	var b strings.Builder
	inStr := false
	started := false
	for {
		c, err := p.out.ReadByte()
		if err != nil {
			p.dead = true
			return ""
		}
		b.WriteByte(c)
		if inStr {
			if c == '"' {
				inStr = false
			}
			continue
		}
		switch c {
		case '"':
			inStr = true
		case '(':
			depth++
			started = true
		case ')':
			depth--
		}
		if started && depth == 0 {
			break
		}
	}
	p.out.ReadString('\n')
	txt := strings.TrimSpace(b.String())
	if strings.HasPrefix(txt, "(error") {
		return ""
	}
	inner := strings.TrimSuffix(strings.TrimPrefix(txt, "(("), "))")
	return lastSexp(inner)
}

// Solver = a fast abstract process (strings as EUF over Int) + a lazily started precise one.
type Solver struct {
	abs       *proc
	prec      *proc
	cache     map[string]string
	Queries   int
	PrecQ     int
	CacheHit  int
	Sat       int
	Unsat     int
	Unknown   int
	Dur       time.Duration
	PrecDur   time.Duration
	TimeoutMs int
	retired   []string
}

var solverBin = "z3"
var preciseBin = "z3"

func NewSolver(timeoutMs int) *Solver {
	if v := os.Getenv("VERIF_SOLVER"); v != "" {
		preciseBin = v
	}
	return &Solver{abs: newProc("z3", true, timeoutMs), cache: map[string]string{}, TimeoutMs: timeoutMs}
}

// abstract returns the abstraction solver, restarted if it died (watchdog).
func (s *Solver) abstract() *proc {
	if s.abs.dead {
		s.retire(s.abs)
		s.abs.close()
		s.abs = newProc("z3", true, s.TimeoutMs)
	}
	return s.abs
}

func (s *Solver) precise() *proc {
	if s.prec != nil && s.prec.dead {
		s.retire(s.prec)
		s.prec.close()
		s.prec = nil
	}
	if s.prec == nil {
		s.prec = newProc(preciseBin, false, s.TimeoutMs)
	}
	return s.prec
}

func (s *Solver) Close() {
	s.abs.close()
	if s.prec != nil {
		s.prec.close()
	}
}

// retire keeps the error lines of a process that is being replaced. A "canceled" error is the
// solver's time limit striking outside check-sat (seen on push under load): it is a time-out of
// that one query, which is answered "unknown" and accounted for as such, not an encoding error.
func (s *Solver) retire(p *proc) {
	for _, e := range p.Errors {
		if !strings.Contains(e, "canceled") {
			s.retired = append(s.retired, e)
		}
	}
	p.Errors = nil
}

// canceled: the query was not answered because the solver's time limit struck outside check-sat.
func canceled(r string) bool {
	return strings.HasPrefix(r, "unknown:(error") && strings.Contains(r, "canceled")
}

func (s *Solver) Errors() []string {
	s.retire(s.abs)
	if s.prec != nil {
		s.retire(s.prec)
	}
	e := append([]string(nil), s.retired...)
	e = append(e, s.abs.Errors...)
	if s.prec != nil {
		e = append(e, s.prec.Errors...)
	}
	return e
}

func (s *Solver) count(r string) {
	switch r {
	case "sat":
		s.Sat++
	case "unsat":
		s.Unsat++
	default:
		s.Unknown++
	}
}

// Feasible: can pc ∧ cond hold? Decided on the abstraction only: "unsat" there is
// definitive; anything else keeps the path (sound: more paths, never fewer).
func (s *Solver) Feasible(decls []VarDecl, pc []string, cond string) bool {
	atomic.AddInt64(&progressTick, 1)
	t0 := time.Now()
	defer func() { s.Dur += time.Since(t0) }()
	hsh := sha256.New()
	for _, c := range pc {
		hsh.Write([]byte(c))
		hsh.Write([]byte{0})
	}
	hsh.Write([]byte{1})
	hsh.Write([]byte(cond))
	ck := string(hsh.Sum(nil)[:16])
	if r, ok := s.cache[ck]; ok {
		s.CacheHit++
		return r != "unsat"
	}
	s.Queries++
	r, _ := s.abstract().check(decls, pc, []string{cond}, nil, 5000)
	s.count(r)
	s.cache[ck] = r
	return r != "unsat"
}

// Check decides pc ∧ extra precisely: abstract first (unsat is definitive), then the
// sequence-theory solver. wantVals: terms to evaluate when sat.
func (s *Solver) Check(decls []VarDecl, pc []string, extra []string, wantVals []string) (string, map[string]string) {
	t0 := time.Now()
	defer func() { s.Dur += time.Since(t0) }()
	s.Queries++
	r, _ := s.abstract().check(decls, pc, extra, nil, s.TimeoutMs)
	if canceled(r) {
		r, _ = s.abstract().check(decls, pc, extra, nil, s.TimeoutMs) // once more, on a fresh process
	}
	if r == "unsat" {
		s.count(r)
		return r, nil
	}
	t1 := time.Now()
	s.PrecQ++
	r, vals := s.precise().check(decls, pc, extra, wantVals, s.TimeoutMs)
	if canceled(r) {
		r, vals = s.precise().check(decls, pc, extra, wantVals, s.TimeoutMs)
	}
	s.PrecDur += time.Since(t1)
	s.count(r)
	return r, vals
}

// CheckPreciseTO asks the precise solver directly with a short timeout (model shaping: best effort).
func (s *Solver) CheckPreciseTO(decls []VarDecl, pc []string, extra []string, wantVals []string, timeoutMs int) (string, map[string]string) {
	t0 := time.Now()
	defer func() { s.Dur += time.Since(t0); s.PrecDur += time.Since(t0) }()
	s.Queries++
	s.PrecQ++
	p := s.precise()
	r, vals := p.check(decls, pc, extra, wantVals, timeoutMs)
	if strings.HasPrefix(r, "unknown") && time.Since(t0) > time.Duration(3*timeoutMs)*time.Millisecond {
		// the solver ignored its timeout: restart it so that later queries are not starved
		p.close()
		s.prec = nil
	}
	return r, vals
}

// lastSexp returns the last top-level s-expression of a space separated sequence.
func lastSexp(s string) string {
	s = strings.TrimSpace(s)
	if s == "" {
		return s
	}
	if s[len(s)-1] == '"' {
		i := len(s) - 2
		for i >= 0 {
			if s[i] == '"' {
				if i > 0 && s[i-1] == '"' {
					i -= 2
					continue
				}
				break
			}
			i--
		}
		if i < 0 {
			i = 0
		}
		return s[i:]
	}
	if s[len(s)-1] == ')' {
		depth := 0
		for i := len(s) - 1; i >= 0; i-- {
			switch s[i] {
			case ')':
				depth++
			case '(':
				depth--
				if depth == 0 {
					return s[i:]
				}
			}
		}
		return s
	}
	i := strings.LastIndexAny(s, " \n\t")
	return s[i+1:]
}

// SolverPool hands one solver to each worker.
type SolverPool struct {
	mu  sync.Mutex
	all []*Solver
}

func (p *SolverPool) New(timeoutMs int) *Solver {
	s := NewSolver(timeoutMs)
	p.mu.Lock()
	p.all = append(p.all, s)
	p.mu.Unlock()
	return s
}

func (p *SolverPool) CloseAll() {
	for _, s := range p.all {
		s.Close()
	}
}

// VarDecl is a solver-level declaration carried by states (so that any worker's
// solver can declare what a state created elsewhere mentions).
type VarDecl struct {
	Name string
	Decl string // full SMT command
}
