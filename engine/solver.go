package main

import (
	"bufio"
	"fmt"
	"io"
	"os/exec"
	"strings"
	"sync"
	"time"
)

// Solver drives one persistent SMT solver process. The assertion stack of the
// process is kept aligned with the path condition of the state being explored: a
// query re-uses the common prefix and pushes only the difference.
type Solver struct {
	cmd      *exec.Cmd
	in       *bufio.Writer
	inRaw    io.WriteCloser
	out      *bufio.Reader
	stack    []string
	declared map[string]bool
	cache    map[string]string
	Queries  int
	CacheHit int
	Sat      int
	Unsat    int
	Unknown  int
	Errors   []string
	Dur      time.Duration
	Name     string
	TimeoutMs int
	dead     bool
}

var solverBin = "z3"

func NewSolver(timeoutMs int) *Solver {
	var cmd *exec.Cmd
	switch solverBin {
	case "cvc5":
		cmd = exec.Command("cvc5", "--incremental", "--strings-exp", "--produce-models", "--lang=smt2", fmt.Sprintf("--tlimit-per=%d", timeoutMs))
	default:
		cmd = exec.Command(solverBin, "-in", fmt.Sprintf("-t:%d", timeoutMs))
	}
	in, _ := cmd.StdinPipe()
	outp, _ := cmd.StdoutPipe()
	cmd.Stderr = cmd.Stdout
	if err := cmd.Start(); err != nil {
		panic(err)
	}
	s := &Solver{cmd: cmd, inRaw: in, in: bufio.NewWriterSize(in, 1<<16), out: bufio.NewReader(outp), declared: map[string]bool{}, cache: map[string]string{}, Name: solverBin, TimeoutMs: timeoutMs}
	if solverBin == "cvc5" {
		s.send("(set-logic ALL)\n")
	} else {
		s.send("(set-option :global-declarations true)\n")
	}
	return s
}

func (s *Solver) send(x string) { s.in.WriteString(x) }

func (s *Solver) Close() {
	s.in.Flush()
	s.inRaw.Close()
	s.cmd.Process.Kill()
	s.cmd.Wait()
}

// VarDecl is a solver-level declaration carried by states (so that any worker's
// solver can declare what a state created elsewhere mentions).
type VarDecl struct {
	Name string
	Decl string // full SMT command
}

func (s *Solver) ensure(decls []VarDecl) {
	for _, d := range decls {
		if !s.declared[d.Name] {
			s.declared[d.Name] = true
			if solverBin == "cvc5" && len(s.stack) > 0 {
				// cvc5 has no global declarations: re-sync from scratch
				s.send(fmt.Sprintf("(pop %d)\n", len(s.stack)))
				s.stack = s.stack[:0]
			}
			s.send(d.Decl + "\n")
		}
	}
}

func (s *Solver) sync(pc []string) {
	k := 0
	for k < len(pc) && k < len(s.stack) && pc[k] == s.stack[k] {
		k++
	}
	if n := len(s.stack) - k; n > 0 {
		s.send(fmt.Sprintf("(pop %d)\n", n))
		s.stack = s.stack[:k]
	}
	for _, c := range pc[k:] {
		s.send("(push)\n(assert " + c + ")\n")
		s.stack = append(s.stack, c)
	}
}

func (s *Solver) readLine() string {
	s.in.Flush()
	line, err := s.out.ReadString('\n')
	if err != nil {
		s.dead = true
		return "unknown:solver died"
	}
	return strings.TrimSpace(line)
}

// Check decides pc ∧ extra. wantVals: terms to evaluate when sat.
func (s *Solver) Check(decls []VarDecl, pc []string, extra []string, wantVals []string) (string, map[string]string) {
	t0 := time.Now()
	defer func() { s.Dur += time.Since(t0) }()
	if s.dead {
		return "unknown:solver died", nil
	}
	ck := ""
	if len(wantVals) == 0 {
		ck = strings.Join(pc, "\x00") + "\x01" + strings.Join(extra, "\x00")
		if r, ok := s.cache[ck]; ok {
			s.CacheHit++
			return r, nil
		}
	}
	s.Queries++
	s.ensure(decls)
	s.sync(pc)
	s.send("(push)\n")
	for _, c := range extra {
		s.send("(assert " + c + ")\n")
	}
	s.send("(check-sat)\n")
	res := s.readLine()
	for strings.HasPrefix(res, "(error") || res == "" || res == "unsupported" {
		if strings.HasPrefix(res, "(error") {
			s.Errors = append(s.Errors, res)
			// an error invalidates the verdict; drain the verdict line that follows
			nxt := s.readLine()
			res = "unknown:" + res + " / " + nxt
			break
		}
		res = s.readLine()
	}
	var vals map[string]string
	if res == "sat" && len(wantVals) > 0 {
		vals = map[string]string{}
		for _, v := range wantVals {
			s.send("(get-value (" + v + "))\n")
			vals[v] = s.readSexp()
		}
	}
	s.send("(pop)\n")
	switch {
	case res == "sat":
		s.Sat++
	case res == "unsat":
		s.Unsat++
	default:
		s.Unknown++
		if !strings.HasPrefix(res, "unknown") {
			res = "unknown:" + res
		}
	}
	if ck != "" {
		s.cache[ck] = res
	}
	return res, vals
}

// readSexp reads one balanced s-expression "((term value))" and returns value text.
func (s *Solver) readSexp() string {
	s.in.Flush()
	depth := 0
	var b strings.Builder
	inStr := false
	started := false
	for {
		c, err := s.out.ReadByte()
		if err != nil {
			s.dead = true
			return ""
		}
		b.WriteByte(c)
		if inStr {
			if c == '"' {
				inStr = false
			}
			continue
		}
		switch c {
		case '"':
			inStr = true
		case '(':
			depth++
			started = true
		case ')':
			depth--
		}
		if started && depth == 0 {
			break
		}
	}
	// consume rest of line
	s.out.ReadString('\n')
	txt := strings.TrimSpace(b.String())
	if strings.HasPrefix(txt, "(error") {
		return ""
	}
	// strip "((" term " " value "))": value is the last top-level element of inner list
	inner := strings.TrimSuffix(strings.TrimPrefix(txt, "(("), "))")
	return lastSexp(inner)
}

// lastSexp returns the last top-level s-expression of a space separated sequence.
func lastSexp(s string) string {
	s = strings.TrimSpace(s)
	if s == "" {
		return s
	}
	if s[len(s)-1] == '"' {
		// string literal: scan back to the opening quote (quotes are doubled inside)
		i := len(s) - 2
		for i >= 0 {
			if s[i] == '"' {
				if i > 0 && s[i-1] == '"' {
					i -= 2
					continue
				}
				break
			}
			i--
		}
		if i < 0 {
			i = 0
		}
		return s[i:]
	}
	if s[len(s)-1] == ')' {
		depth := 0
		for i := len(s) - 1; i >= 0; i-- {
			switch s[i] {
			case ')':
				depth++
			case '(':
				depth--
				if depth == 0 {
					return s[i:]
				}
			}
		}
		return s
	}
	i := strings.LastIndexAny(s, " \n\t")
	return s[i+1:]
}

// SolverPool hands one solver to each worker.
type SolverPool struct {
	mu  sync.Mutex
	all []*Solver
}

func (p *SolverPool) New(timeoutMs int) *Solver {
	s := NewSolver(timeoutMs)
	p.mu.Lock()
	p.all = append(p.all, s)
	p.mu.Unlock()
	return s
}

func (p *SolverPool) CloseAll() {
	for _, s := range p.all {
		s.Close()
	}
}
