package main

import (
	"fmt"
	"go/types"
	"sort"
	"strings"

	"golang.org/x/tools/go/ssa"
)

type deferred struct {
	Fn   Value
	Args []Value
	// invoke form
	Iface  *IfaceV
	Method *types.Func
}

type Frame struct {
	Fn     *ssa.Function
	Block  *ssa.BasicBlock
	Prev   *ssa.BasicBlock
	PC     int
	Env    map[ssa.Value]Value
	Defers []deferred
	Dest   ssa.Value // register in caller receiving the result (nil: discard)
	Visits []uint16  // per basic block, for the unwinding bound
	Marker string    // engine continuation marker ("" = ordinary)
}

type Thread struct {
	ID    int
	Stack []*Frame
	Done  bool
	Name  string
	// Wait describes what the thread is blocked on at its current yield point ("" = runnable)
	AtYield bool
}

type NondetRec struct {
	Key  string // label#occ
	Term string
	Kind string // int|bool|string|time|chars|choice
	Aux  []string
}

type UFApp struct {
	Name string
	Args []string
	Kind []string // kinds of args: int|string|lit
	Res  string
	RK   string
}

type MutexSt struct {
	Writer  int // thread id +1 holding exclusively (0 = none)
	Readers int
}

type State struct {
	Heap        map[int]Value
	NextObj     int
	PC          []string
	Decls       []VarDecl
	Threads     []*Thread
	Cur         int
	Mutex       map[string]MutexSt
	Clock       string
	ClockMax    string
	EqLits      map[string]string // terms an Assume fixed to a literal string
	B64         map[string]StrV   // base64 encoding term -> the string that was encoded
	BlobOf      map[string]int    // opaque string standing for a structured blob -> heap object
	FileOf      map[string]int    // opaque file name (zz.YAMLFile) -> heap object of its content
	Gz          map[string]StrV   // gzip stream term -> the bytes it was made from
	B64Var      map[string]string // spare-bits variant of a base64 text -> that text
	Now0        string
	Occ         map[string]int
	Nondet      []NondetRec
	UF          []UFApp
	Trace       []string
	Overflow    []string
	NoPanic     bool
	NoModel     map[string]bool // Go-source models switched off by the harness (shared, never mutated in place)
	PanicMsg    string          // a Go panic raised while this state was being set up as one side of a fork
	Depth       int
	Reached     []string
	Assumes     int
	Sched       *SchedSt
	FreshBranch map[string]bool // unconstrained fresh booleans (fast path)
	Steps       int
}

func (s *State) frame() *Frame {
	st := s.Threads[s.Cur].Stack
	return st[len(st)-1]
}
func (s *State) stack() []*Frame     { return s.Threads[s.Cur].Stack }
func (s *State) setStack(f []*Frame) { s.Threads[s.Cur].Stack = f }
func (s *State) push(f *Frame)       { s.Threads[s.Cur].Stack = append(s.Threads[s.Cur].Stack, f) }

func (s *State) Fork() *State {
	n := &State{NextObj: s.NextObj, Cur: s.Cur, Clock: s.Clock, ClockMax: s.ClockMax, Now0: s.Now0, NoPanic: s.NoPanic, NoModel: s.NoModel, Depth: s.Depth, Assumes: s.Assumes, Steps: s.Steps}
	n.Heap = make(map[int]Value, len(s.Heap)+8)
	for k, v := range s.Heap {
		n.Heap[k] = v
	}
	n.PC = s.PC[:len(s.PC):len(s.PC)]
	n.Decls = s.Decls[:len(s.Decls):len(s.Decls)]
	n.Nondet = s.Nondet[:len(s.Nondet):len(s.Nondet)]
	n.UF = s.UF[:len(s.UF):len(s.UF)]
	n.Trace = s.Trace[:len(s.Trace):len(s.Trace)]
	n.Overflow = s.Overflow[:len(s.Overflow):len(s.Overflow)]
	n.Reached = s.Reached[:len(s.Reached):len(s.Reached)]
	n.Mutex = make(map[string]MutexSt, len(s.Mutex))
	for k, v := range s.Mutex {
		n.Mutex[k] = v
	}
	n.Occ = make(map[string]int, len(s.Occ))
	for k, v := range s.Occ {
		n.Occ[k] = v
	}
	if s.FreshBranch != nil {
		n.FreshBranch = make(map[string]bool, len(s.FreshBranch))
		for k, v := range s.FreshBranch {
			n.FreshBranch[k] = v
		}
	}
	if s.EqLits != nil {
		n.EqLits = make(map[string]string, len(s.EqLits))
		for k, v := range s.EqLits {
			n.EqLits[k] = v
		}
	}
	if s.B64 != nil {
		n.B64 = make(map[string]StrV, len(s.B64))
		for k, v := range s.B64 {
			n.B64[k] = v
		}
	}
	if s.B64Var != nil {
		n.B64Var = make(map[string]string, len(s.B64Var))
		for k, v := range s.B64Var {
			n.B64Var[k] = v
		}
	}
	if s.Gz != nil {
		n.Gz = make(map[string]StrV, len(s.Gz))
		for k, v := range s.Gz {
			n.Gz[k] = v
		}
	}
	if s.FileOf != nil {
		n.FileOf = make(map[string]int, len(s.FileOf))
		for k, v := range s.FileOf {
			n.FileOf[k] = v
		}
	}
	if s.BlobOf != nil {
		n.BlobOf = make(map[string]int, len(s.BlobOf))
		for k, v := range s.BlobOf {
			n.BlobOf[k] = v
		}
	}
	if s.Sched != nil {
		c := *s.Sched
		n.Sched = &c
	}
	for _, t := range s.Threads {
		nt := &Thread{ID: t.ID, Done: t.Done, Name: t.Name, AtYield: t.AtYield}
		nt.Stack = make([]*Frame, len(t.Stack))
		for i, f := range t.Stack {
			nf := *f
			nf.Env = make(map[ssa.Value]Value, len(f.Env)+4)
			for k, v := range f.Env {
				nf.Env[k] = v
			}
			nf.Defers = f.Defers[:len(f.Defers):len(f.Defers)]
			nf.Visits = append([]uint16(nil), f.Visits...)
			nt.Stack[i] = &nf
		}
		n.Threads = append(n.Threads, nt)
	}
	return n
}

func (s *State) alloc(v Value) PtrV {
	id := s.NextObj
	s.NextObj++
	s.Heap[id] = v
	return PtrV{Obj: id}
}

type goPanic struct{ Msg string }

func (s *State) load(p PtrV) Value {
	if p.Obj == 0 {
		panic(goPanic{"nil pointer dereference"})
	}
	o, ok := s.Heap[p.Obj]
	if !ok {
		panic(engineErr(fmt.Sprintf("load of unknown object %d", p.Obj)))
	}
	return sub(o, p.Path)
}

func (s *State) store(p PtrV, v Value) {
	if p.Obj == 0 {
		panic(goPanic{"nil pointer dereference (store)"})
	}
	o, ok := s.Heap[p.Obj]
	if !ok {
		panic(engineErr(fmt.Sprintf("store to unknown object %d", p.Obj)))
	}
	s.Heap[p.Obj] = setSub(o, p.Path, v)
}

func (s *State) addPC(c string) {
	if c == "true" {
		return
	}
	s.PC = append(s.PC, c)
}

func (s *State) declare(name, sort string) {
	s.Decls = append(s.Decls, VarDecl{Name: name, Decl: "(declare-const " + name + " " + sort + ")"})
}

func (s *State) nextKey(label string) string {
	k := fmt.Sprintf("%s#%d", label, s.Occ[label])
	s.Occ[label]++
	return k
}

func ptrKey(p PtrV) string {
	var b strings.Builder
	fmt.Fprintf(&b, "%d", p.Obj)
	for _, i := range p.Path {
		fmt.Fprintf(&b, ".%d", i)
	}
	return b.String()
}

func sortedKeys(m map[string]int) []string {
	var ks []string
	for k := range m {
		ks = append(ks, k)
	}
	sort.Strings(ks)
	return ks
}
