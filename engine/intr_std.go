package main

import (
	"fmt"
	"go/types"
	"net/http"
	"path"
	"regexp"
	"strconv"
	"strings"
)

func tv(v Value) string { return v.(TimeV).T }
func iv(v Value) string { return v.(IntV).T }

func clampDur(t string) string {
	return "(ite (> " + t + " 9223372036854775807) 9223372036854775807 (ite (< " + t + " (- " + two63 + ")) (- " + two63 + ") " + t + "))"
}

func (c *icall) now() string {
	s := c.s
	key := s.nextKey("$now")
	v := c.w.E.freshVar(s, "now", "Int")
	s.Nondet = append(s.Nondet, NondetRec{Key: key, Term: v, Kind: "now"})
	if s.Clock != "" {
		s.addPC("(>= " + v + " " + s.Clock + ")")
	} else {
		s.Now0 = v
	}
	if s.ClockMax != "" && s.Now0 != v {
		s.addPC("(<= " + v + " (+ " + s.Now0 + " " + s.ClockMax + "))")
	}
	// the real clock: 2001 .. 2043
	s.addPC("(and (<= 1000000000000000000 " + v + ") (<= " + v + " 2305843009213693952))")
	s.Clock = v
	return v
}

func allLit(args []Value) bool {
	for _, a := range args {
		switch x := a.(type) {
		case StrV:
			if x.K != SLit {
				return false
			}
		case IntV:
			if !x.C {
				return false
			}
		case BoolV:
			if !x.IsLit() {
				return false
			}
		default:
			return false
		}
	}
	return true
}

func (c *icall) str(i int) StrV { return c.args[i].(StrV) }

// strSliceVal allocates a []string.
func strSliceVal(s *State, elems []StrV) SliceV {
	a := ArrayV{E: make([]Value, len(elems))}
	for i := range elems {
		a.E[i] = elems[i]
	}
	p := s.alloc(a)
	return SliceV{p.Obj, 0, len(elems), len(elems)}
}

func sliceElems(s *State, v Value) []Value {
	sl := v.(SliceV)
	if sl.Obj == 0 {
		return nil
	}
	if sl.Len == -1 {
		panic(engineErr("elements of opaque byte string"))
	}
	return s.Heap[sl.Obj].(ArrayV).E[sl.Off : sl.Off+sl.Len]
}

func (c *icall) opaqueErr(msg StrV) IfaceV {
	id := c.w.E.freshName("err")
	return IfaceV{Opaque: id, V: msg}
}

func init() {
	I := intrinsics
	// ---------------- time ----------------
	I["time.Now"] = func(c *icall) ([]*State, bool) { c.set(TimeV{c.now()}); return nil, false }
	I["time.Since"] = func(c *icall) ([]*State, bool) {
		c.set(symInt(clampDur("(- " + c.now() + " " + tv(c.args[0]) + ")")))
		return nil, false
	}
	I["time.Until"] = func(c *icall) ([]*State, bool) {
		c.set(symInt(clampDur("(- " + tv(c.args[0]) + " " + c.now() + ")")))
		return nil, false
	}
	I["(time.Time).IsZero"] = func(c *icall) ([]*State, bool) { c.set(BoolV{tEq(tv(c.args[0]), zeroTime)}); return nil, false }
	I["(time.Time).After"] = func(c *icall) ([]*State, bool) {
		c.set(BoolV{"(> " + tv(c.args[0]) + " " + tv(c.args[1]) + ")"})
		return nil, false
	}
	I["(time.Time).Before"] = func(c *icall) ([]*State, bool) {
		c.set(BoolV{"(< " + tv(c.args[0]) + " " + tv(c.args[1]) + ")"})
		return nil, false
	}
	I["(time.Time).Equal"] = func(c *icall) ([]*State, bool) { c.set(BoolV{tEq(tv(c.args[0]), tv(c.args[1]))}); return nil, false }
	I["(time.Time).Add"] = func(c *icall) ([]*State, bool) {
		d := c.args[1].(IntV)
		if d.C && d.N == 0 {
			c.set(c.args[0])
		} else {
			c.set(TimeV{"(+ " + tv(c.args[0]) + " " + d.T + ")"})
		}
		return nil, false
	}
	I["(time.Time).Sub"] = func(c *icall) ([]*State, bool) {
		c.set(symInt(clampDur("(- " + tv(c.args[0]) + " " + tv(c.args[1]) + ")")))
		return nil, false
	}
	I["(time.Time).Unix"] = func(c *icall) ([]*State, bool) {
		c.set(symInt("(div " + tv(c.args[0]) + " 1000000000)"))
		return nil, false
	}
	I["(time.Time).UnixNano"] = func(c *icall) ([]*State, bool) { c.set(symInt(tv(c.args[0]))); return nil, false }
	I["time.Unix"] = func(c *icall) ([]*State, bool) {
		c.set(TimeV{"(+ (* " + iv(c.args[0]) + " 1000000000) " + iv(c.args[1]) + ")"})
		return nil, false
	}
	I["(time.Time).Truncate"] = func(c *icall) ([]*State, bool) {
		d := c.args[1].(IntV)
		if !d.C || d.N <= 0 || 86400000000000%d.N != 0 {
			panic(engineErr("Time.Truncate with a duration that does not divide a day"))
		}
		t := tv(c.args[0])
		c.set(TimeV{tIte(tEq(t, zeroTime), zeroTime, "(* "+d.T+" (div "+t+" "+d.T+"))")})
		return nil, false
	}
	for _, n := range []string{"(time.Time).UTC", "(time.Time).Local", "(time.Time).Round"} {
		I[n] = func(c *icall) ([]*State, bool) { c.set(c.args[0]); return nil, false }
	}
	I["(time.Time).Format"] = func(c *icall) ([]*State, bool) {
		c.set(opaqueStr(c.w.applyUF(c.s, "time.format", []Value{symInt(tv(c.args[0]))}, "String", "string")))
		return nil, false
	}
	I["(time.Time).String"] = I["(time.Time).Format"]
	I["(time.Duration).String"] = func(c *icall) ([]*State, bool) {
		c.set(opaqueStr(c.w.applyUF(c.s, "duration.string", []Value{c.args[0]}, "String", "string")))
		return nil, false
	}
	durFloat := func(div int64) intrinsic {
		return func(c *icall) ([]*State, bool) {
			d := c.args[0].(IntV)
			if d.C {
				c.set(FloatV{F: float64(d.N) / float64(div)})
			} else {
				c.set(FloatV{Ns: d.T, Div: div})
			}
			return nil, false
		}
	}
	I["(time.Duration).Seconds"] = durFloat(1000000000)
	I["(time.Duration).Minutes"] = durFloat(60000000000)
	I["(time.Duration).Hours"] = durFloat(3600000000000)
	I["time.Sleep"] = func(c *icall) ([]*State, bool) { return nil, false }

	// ---------------- strings ----------------
	I["strings.HasPrefix"] = func(c *icall) ([]*State, bool) { c.set(BoolV{strHasPrefix(c.str(0), c.str(1))}); return nil, false }
	I["strings.HasSuffix"] = func(c *icall) ([]*State, bool) { c.set(BoolV{strHasSuffix(c.str(0), c.str(1))}); return nil, false }
	I["strings.ContainsAny"] = func(c *icall) ([]*State, bool) {
		set := c.str(1)
		if set.K != SLit {
			panic(engineErr("strings.ContainsAny with a symbolic character set"))
		}
		var any []string
		for i := 0; i < len(set.S); i++ {
			any = append(any, strContains(c.str(0), litStr(set.S[i:i+1])))
		}
		c.set(BoolV{tOr(any...)})
		return nil, false
	}
	I["strings.Contains"] = func(c *icall) ([]*State, bool) { c.set(BoolV{strContains(c.str(0), c.str(1))}); return nil, false }
	I["strings.EqualFold"] = func(c *icall) ([]*State, bool) {
		c.set(BoolV{strEq(c.w.strMap(c.s, c.str(0), toLowerChar, "strings.ToLower"), c.w.strMap(c.s, c.str(1), toLowerChar, "strings.ToLower"))})
		return nil, false
	}
	I["strings.ToLower"] = func(c *icall) ([]*State, bool) {
		c.set(c.w.strMap(c.s, c.str(0), toLowerChar, "strings.ToLower"))
		return nil, false
	}
	I["strings.ToUpper"] = func(c *icall) ([]*State, bool) {
		c.set(c.w.strMap(c.s, c.str(0), toUpperChar, "strings.ToUpper"))
		return nil, false
	}
	I["strings.TrimPrefix"] = func(c *icall) ([]*State, bool) {
		a, p := c.str(0), c.str(1)
		if a.K == SLit && p.K == SLit {
			c.set(litStr(strings.TrimPrefix(a.S, p.S)))
			return nil, false
		}
		ac, aok := a.chars()
		pc, pok := p.chars()
		if aok && pok {
			if len(pc) > len(ac) {
				c.set(a)
				return nil, false
			}
			cond := charsEq(ac[:len(pc)], pc)
			return c.forkBool(cond, StrV{K: SChars, C: ac[len(pc):]}, a)
		}
		cond := strHasPrefix(a, p)
		rest := opaqueStr("(str.substr " + a.term() + " (str.len " + p.term() + ") (- (str.len " + a.term() + ") (str.len " + p.term() + ")))")
		c.set(opaqueStr(tIte(cond, rest.T, a.term())))
		return nil, false
	}
	I["strings.TrimSuffix"] = func(c *icall) ([]*State, bool) {
		a, p := c.str(0), c.str(1)
		if a.K == SLit && p.K == SLit {
			c.set(litStr(strings.TrimSuffix(a.S, p.S)))
			return nil, false
		}
		ac, aok := a.chars()
		pc, pok := p.chars()
		if aok && pok {
			if len(pc) > len(ac) {
				c.set(a)
				return nil, false
			}
			cond := charsEq(ac[len(ac)-len(pc):], pc)
			return c.forkBool(cond, StrV{K: SChars, C: ac[:len(ac)-len(pc)]}, a)
		}
		cond := strHasSuffix(a, p)
		rest := "(str.substr " + a.term() + " 0 (- (str.len " + a.term() + ") (str.len " + p.term() + ")))"
		c.set(opaqueStr(tIte(cond, rest, a.term())))
		return nil, false
	}
	I["strings.TrimRight"] = func(c *icall) ([]*State, bool) {
		a, cut := c.str(0), c.str(1)
		if a.K == SLit && cut.K == SLit {
			c.set(litStr(strings.TrimRight(a.S, cut.S)))
			return nil, false
		}
		if cut.K != SLit {
			panic(engineErr("strings.TrimRight with a symbolic cutset"))
		}
		// a concatenation: literal pieces at the end are trimmed; base64 text that remains at the
		// end stays as it is when the cutset holds none of its alphabet (padding, white space)
		if a.K == SOpaque {
			leaves := flattenConcat(a.T)
			hi := len(leaves)
			var last *StrV
			for hi > 0 {
				lv := opaqueStr(leaves[hi-1])
				if lv.K != SLit {
					break
				}
				t := strings.TrimRight(lv.S, cut.S)
				if t == "" {
					hi--
					continue
				}
				tl := litStr(t)
				last = &tl
				break
			}
			outside := !strings.ContainsAny(cut.S, "ABCDEFGHIJKLMNOPQRSTUVWXYZabcdefghijklmnopqrstuvwxyz0123456789-_+/")
			endOK := last != nil
			if !endOK && hi > 0 {
				_, isB64 := c.s.B64[leaves[hi-1]]
				endOK = isB64 && outside
			}
			if hi == 0 {
				c.set(litStr(""))
				return nil, false
			}
			if endOK {
				out := litStr("")
				for i := 0; i < hi; i++ {
					lv := opaqueStr(leaves[i])
					if i == hi-1 && last != nil {
						lv = *last
					}
					out = strConcat(out, lv)
				}
				c.set(out)
				return nil, false
			}
		}
		c.set(opaqueStr(c.w.applyUF(c.s, "strings.TrimRight", []Value{a, cut}, "String", "string")))
		return nil, false
	}
	I["strings.TrimLeft"] = func(c *icall) ([]*State, bool) {
		a, cut := c.str(0), c.str(1)
		if a.K == SLit && cut.K == SLit {
			c.set(litStr(strings.TrimLeft(a.S, cut.S)))
			return nil, false
		}
		if cut.K != SLit || len(cut.S) != 1 {
			panic(engineErr("strings.TrimLeft with a non-literal or multi-char cutset"))
		}
		ch := strconv.Itoa(int(cut.S[0]))
		if ac, ok := a.chars(); ok {
			// fork on the number of leading cut characters
			var conds []string
			var results []StrV
			lead := []string{}
			for k := 0; k <= len(ac); k++ {
				cond := append([]string(nil), lead...)
				if k < len(ac) {
					cond = append(cond, tNot(charEq(ac[k], ch)))
				}
				conds = append(conds, tAnd(cond...))
				results = append(results, StrV{K: SChars, C: ac[k:]})
				if k < len(ac) {
					lead = append(lead, charEq(ac[k], ch))
				}
			}
			return c.forkVals(conds, results)
		}
		// opaque: result r with a = cut^k ++ r, r not starting with cut (k unbounded)
		r := c.w.E.freshVar(c.s, "trimleft", "String")
		pre := c.w.E.freshVar(c.s, "trimpre", "String")
		c.s.addPC(tEq(a.term(), "(str.++ "+pre+" "+r+")"))
		c.s.addPC("(str.in_re " + pre + " (re.* (str.to_re " + smtStrLit(cut.S) + ")))")
		c.s.addPC(tNot("(str.prefixof " + smtStrLit(cut.S) + " " + r + ")"))
		c.set(opaqueStr(r))
		return nil, false
	}
	I["strings.TrimSpace"] = func(c *icall) ([]*State, bool) {
		a := c.str(0)
		if a.K == SLit {
			c.set(litStr(strings.TrimSpace(a.S)))
			return nil, false
		}
		// a concatenation: literal white space at the two ends is cut; what remains is returned as
		// it is when its outer pieces are base64 text (no white space in that alphabet) or literals
		if leaves := flattenConcat(a.T); a.K == SOpaque && len(leaves) > 1 {
			isWS := func(s string) bool { return strings.TrimSpace(s) == "" }
			lo, hi := 0, len(leaves)
			var first, last *StrV
			for lo < hi {
				lv := opaqueStr(leaves[lo])
				if lv.K == SLit && isWS(lv.S) {
					lo++
					continue
				}
				if lv.K == SLit {
					t := litStr(strings.TrimLeft(lv.S, " \t\n\r\v\f"))
					first = &t
				}
				break
			}
			for hi > lo {
				lv := opaqueStr(leaves[hi-1])
				if lv.K == SLit && isWS(lv.S) {
					hi--
					continue
				}
				if lv.K == SLit {
					t := litStr(strings.TrimRight(lv.S, " \t\n\r\v\f"))
					last = &t
				}
				break
			}
			clean := func(l string, lit *StrV) bool {
				if lit != nil {
					return true
				}
				_, isB64 := c.s.B64[l]
				return isB64
			}
			if lo < hi && clean(leaves[lo], first) && clean(leaves[hi-1], last) {
				out := litStr("")
				for i := lo; i < hi; i++ {
					lv := opaqueStr(leaves[i])
					if i == lo && first != nil {
						lv = *first
					}
					if i == hi-1 && last != nil && !(i == lo && first != nil) {
						lv = *last
					}
					out = strConcat(out, lv)
				}
				c.set(out)
				return nil, false
			}
			if lo == hi {
				c.set(litStr(""))
				return nil, false
			}
		}
		if a.K == SOpaque {
			if _, isB64 := c.s.B64[a.T]; isB64 {
				c.set(a) // base64 text has no white space
				return nil, false
			}
		}
		c.set(opaqueStr(c.w.applyUF(c.s, "strings.TrimSpace", []Value{a}, "String", "string")))
		return nil, false
	}
	I["strings.Trim"] = func(c *icall) ([]*State, bool) {
		if allLit(c.args) {
			c.set(litStr(strings.Trim(c.str(0).S, c.str(1).S)))
			return nil, false
		}
		c.set(opaqueStr(c.w.applyUF(c.s, "strings.Trim", []Value{c.str(0), c.str(1)}, "String", "string")))
		return nil, false
	}
	I["strings.Join"] = func(c *icall) ([]*State, bool) {
		el := sliceElems(c.s, c.args[0])
		sep := c.str(1)
		r := litStr("")
		for i, e := range el {
			if i > 0 {
				r = strConcat(r, sep)
			}
			r = strConcat(r, e.(StrV))
		}
		c.set(r)
		return nil, false
	}
	I["strings.Repeat"] = func(c *icall) ([]*State, bool) {
		if cnt := c.args[1].(IntV); !cnt.C {
			// a small symbolic count: fork over 0..4 (larger counts are outside the encoding)
			var conds []string
			var vals []StrV
			for k := 0; k <= 4; k++ {
				conds = append(conds, tEq(cnt.T, fmt.Sprint(k)))
				r := litStr("")
				for i := 0; i < k; i++ {
					r = strConcat(r, c.str(0))
				}
				vals = append(vals, r)
			}
			c.s.Overflow = append(c.s.Overflow, "(or (< "+cnt.T+" 0) (> "+cnt.T+" 4))")
			return c.forkVals(conds, vals)
		}
		n := concreteInt(c.args[1], "strings.Repeat count")
		r := litStr("")
		for i := 0; i < n; i++ {
			r = strConcat(r, c.str(0))
		}
		c.set(r)
		return nil, false
	}
	split := func(c *icall, s, sep StrV, limit int) ([]*State, bool) {
		if s.K == SLit && sep.K == SLit {
			parts := strings.SplitN(s.S, sep.S, limit)
			el := make([]StrV, len(parts))
			for i, p := range parts {
				el[i] = litStr(p)
			}
			c.set(strSliceVal(c.s, el))
			return nil, false
		}
		if sep.K != SLit || len(sep.S) == 0 {
			panic(engineErr("strings.Split with a non-literal or empty separator"))
		}
		max := splitMax
		if limit > 0 && limit < max {
			max = limit
		}
		if sc, ok := s.chars(); ok && len(sep.S) == 1 {
			// fork on which positions hold the separator (first max-1 occurrences)
			ch := strconv.Itoa(int(sep.S[0]))
			return c.splitChars(sc, ch, limit)
		}
		// an opaque string that is syntactically a concatenation: if no symbolic leaf contains the
		// separator the split is structural (pieces are the very terms that were concatenated)
		if s.K == SOpaque && limit <= 0 {
			leaves := flattenConcat(s.T)
			if len(leaves) > 1 {
				var conds []string
				for _, l := range leaves {
					if !strings.HasPrefix(l, "\"") {
						conds = append(conds, tNot("(str.contains "+l+" "+smtStrLit(sep.S)+")"))
					}
				}
				structural := tAnd(conds...)
				if !c.w.feasible(c.s, tNot(structural)) {
					var pieces []StrV
					cur := litStr("")
					for _, l := range leaves {
						if strings.HasPrefix(l, "\"") {
							lit := parseSMTString(l)
							segs := strings.Split(lit, sep.S)
							for i, sg := range segs {
								if i > 0 {
									pieces = append(pieces, cur)
									cur = litStr("")
								}
								cur = strConcat(cur, litStr(sg))
							}
						} else {
							cur = strConcat(cur, opaqueStr(l))
						}
					}
					pieces = append(pieces, cur)
					c.set(strSliceVal(c.s, pieces))
					return nil, false
				}
			}
		}
		// opaque: n pieces, n in 1..max; pieces contain no separator except (n==max) the last one may
		var conds []string
		var results [][]StrV
		st := s.term()
		for n := 1; n <= max; n++ {
			parts := make([]StrV, n)
			var cs []string
			var cat []string
			for i := 0; i < n; i++ {
				v := c.w.E.freshVar(c.s, fmt.Sprintf("split%d_%d", n, i), "String")
				parts[i] = opaqueStr(v)
				if i > 0 {
					cat = append(cat, smtStrLit(sep.S))
				}
				cat = append(cat, v)
				if i < n-1 || n < max || limit <= 0 && n < max {
					cs = append(cs, tNot("(str.contains "+v+" "+smtStrLit(sep.S)+")"))
				}
			}
			if n == 1 {
				cs = append(cs, tEq(st, cat[0]))
			} else {
				cs = append(cs, tEq(st, "(str.++ "+strings.Join(cat, " ")+")"))
			}
			conds = append(conds, tAnd(cs...))
			results = append(results, parts)
		}
		depth := len(c.s.stack())
		dest := c.dest
		return c.w.forkChoices(c.s, conds, func(st *State, i int) {
			if dest != nil {
				st.stack()[depth-1].Env[dest] = strSliceVal(st, results[i])
			}
		})
	}
	I["strings.Split"] = func(c *icall) ([]*State, bool) { return split(c, c.str(0), c.str(1), -1) }
	I["strings.SplitN"] = func(c *icall) ([]*State, bool) {
		return split(c, c.str(0), c.str(1), concreteInt(c.args[2], "SplitN n"))
	}
	I["strings.Index"] = func(c *icall) ([]*State, bool) {
		if allLit(c.args) {
			c.set(mkInt(int64(strings.Index(c.str(0).S, c.str(1).S))))
			return nil, false
		}
		c.set(c.indexOf(c.str(0), c.str(1)))
		return nil, false
	}
	I["strings.IndexByte"] = func(c *icall) ([]*State, bool) {
		b, ok := c.args[1].(IntV)
		if !ok || !b.C {
			panic(engineErr("strings.IndexByte with a symbolic byte"))
		}
		sep := litStr(string([]byte{byte(b.N)}))
		if a := c.str(0); a.K == SLit {
			c.set(mkInt(int64(strings.IndexByte(a.S, byte(b.N)))))
			return nil, false
		}
		c.set(c.indexOf(c.str(0), sep))
		return nil, false
	}
	I["strings.Replace"] = func(c *icall) ([]*State, bool) {
		if allLit(c.args) {
			c.set(litStr(strings.Replace(c.str(0).S, c.str(1).S, c.str(2).S, int(c.args[3].(IntV).N))))
			return nil, false
		}
		c.set(opaqueStr(c.w.applyUF(c.s, "strings.Replace", []Value{c.str(0), c.str(1), c.str(2), c.args[3]}, "String", "string")))
		return nil, false
	}
	I["strings.ReplaceAll"] = func(c *icall) ([]*State, bool) {
		if allLit(c.args) {
			c.set(litStr(strings.ReplaceAll(c.str(0).S, c.str(1).S, c.str(2).S)))
			return nil, false
		}
		c.set(opaqueStr(c.w.applyUF(c.s, "strings.ReplaceAll", []Value{c.str(0), c.str(1), c.str(2)}, "String", "string")))
		return nil, false
	}
	I["strings.Fields"] = func(c *icall) ([]*State, bool) {
		if allLit(c.args) {
			parts := strings.Fields(c.str(0).S)
			el := make([]StrV, len(parts))
			for i, p := range parts {
				el[i] = litStr(p)
			}
			c.set(strSliceVal(c.s, el))
			return nil, false
		}
		panic(engineErr("strings.Fields on a symbolic string"))
	}
	I["path.Join"] = func(c *icall) ([]*State, bool) {
		el := sliceElems(c.s, c.args[0])
		var parts []string
		for _, e := range el {
			sv := e.(StrV)
			if sv.K != SLit {
				panic(engineErr("path.Join on symbolic string"))
			}
			parts = append(parts, sv.S)
		}
		c.set(litStr(path.Join(parts...)))
		return nil, false
	}

	// ---------------- strconv ----------------
	I["strconv.Itoa"] = func(c *icall) ([]*State, bool) { c.set(intToStr(c.args[0].(IntV))); return nil, false }
	I["strconv.FormatInt"] = func(c *icall) ([]*State, bool) {
		if b := c.args[1].(IntV); !b.C || b.N != 10 {
			panic(engineErr("FormatInt base != 10"))
		}
		c.set(intToStr(c.args[0].(IntV)))
		return nil, false
	}
	parseInt := func(c *icall, s StrV, bits int, tuple bool) ([]*State, bool) {
		if s.K == SLit {
			n, err := strconv.ParseInt(s.S, 10, bits)
			if err != nil {
				c.setTuple(mkInt(0), c.opaqueErr(litStr(err.Error())))
			} else {
				c.setTuple(mkInt(n), IfaceV{})
			}
			return nil, false
		}
		if s.FromInt != "" {
			// the canonical decimal spelling of an integer parses back to it
			c.setTuple(symInt(s.FromInt), IfaceV{})
			return nil, false
		}
		// symbolic: either a parse error, or a value n with canonical(n) related to s through parse_int
		ok := c.w.applyUF(c.s, "strconv.parse_ok", []Value{s}, "Bool", "bool")
		n := c.w.applyUF(c.s, "strconv.parse_val", []Value{s}, "Int", "int")
		depth := len(c.s.stack())
		dest := c.dest
		e := c.opaqueErr(litStr("strconv: invalid syntax"))
		return c.w.branch(c.s, ok,
			func(st *State) {
				st.addPC(inInt64(n))
				// the canonical decimal spelling parses to itself
				if dest != nil {
					st.stack()[depth-1].Env[dest] = TupleV{[]Value{symInt(n), IfaceV{}}}
				}
			},
			func(st *State) {
				if dest != nil {
					st.stack()[depth-1].Env[dest] = TupleV{[]Value{mkInt(0), e}}
				}
			})
	}
	I["strconv.ParseInt"] = func(c *icall) ([]*State, bool) {
		if b := c.args[1].(IntV); !b.C || b.N != 10 {
			panic(engineErr("ParseInt base != 10"))
		}
		return parseInt(c, c.str(0), int(c.args[2].(IntV).N), true)
	}
	I["strconv.Atoi"] = func(c *icall) ([]*State, bool) { return parseInt(c, c.str(0), 64, true) }
	I["strconv.Quote"] = func(c *icall) ([]*State, bool) {
		if allLit(c.args) {
			c.set(litStr(strconv.Quote(c.str(0).S)))
		} else {
			c.set(opaqueStr(c.w.applyUF(c.s, "strconv.Quote", []Value{c.str(0)}, "String", "string")))
		}
		return nil, false
	}

	// ---------------- fmt / errors ----------------
	I["fmt.Sprintf"] = func(c *icall) ([]*State, bool) {
		c.set(c.w.sprintf(c.s, c.str(0), sliceElems(c.s, c.args[1])))
		return nil, false
	}
	I["fmt.Sprint"] = func(c *icall) ([]*State, bool) {
		c.set(c.w.sprint(c.s, sliceElems(c.s, c.args[0]), false))
		return nil, false
	}
	I["fmt.Sprintln"] = func(c *icall) ([]*State, bool) {
		c.set(c.w.sprint(c.s, sliceElems(c.s, c.args[0]), true))
		return nil, false
	}
	I["fmt.Errorf"] = func(c *icall) ([]*State, bool) {
		c.set(c.opaqueErr(c.w.sprintf(c.s, c.str(0), sliceElems(c.s, c.args[1]))))
		return nil, false
	}
	I["errors.New"] = func(c *icall) ([]*State, bool) { c.set(c.opaqueErr(c.str(0))); return nil, false }
	I["golang.org/x/xerrors.New"] = I["errors.New"]
	I["golang.org/x/xerrors.Errorf"] = I["fmt.Errorf"]
	I["fmt.Fprintf"] = func(c *icall) ([]*State, bool) {
		msg := c.w.sprintf(c.s, c.str(1), sliceElems(c.s, c.args[2]))
		return c.tailInvoke(c.args[0].(IfaceV), "Write", []Value{c.w.bytesOfString(c.s, msg)})
	}
	I["fmt.Fprint"] = func(c *icall) ([]*State, bool) {
		r := c.w.sprint(c.s, sliceElems(c.s, c.args[1]), false)
		return c.tailInvoke(c.args[0].(IfaceV), "Write", []Value{c.w.bytesOfString(c.s, r)})
	}
	I["fmt.Fprintln"] = func(c *icall) ([]*State, bool) {
		r := c.w.sprint(c.s, sliceElems(c.s, c.args[1]), true)
		return c.tailInvoke(c.args[0].(IfaceV), "Write", []Value{c.w.bytesOfString(c.s, r)})
	}
	I["io.WriteString"] = func(c *icall) ([]*State, bool) {
		return c.tailInvoke(c.args[0].(IfaceV), "Write", []Value{c.w.bytesOfString(c.s, c.str(1))})
	}
	for _, n := range []string{"fmt.Println", "fmt.Printf", "fmt.Print", "log.Printf", "log.Println", "log.Print"} {
		I[n] = func(c *icall) ([]*State, bool) { c.set(zeroResults(c.fn.Signature)); return nil, false }
	}

	// ---------------- os ----------------
	I["strconv.FormatBool"] = func(c *icall) ([]*State, bool) {
		c.set(c.w.fmtValue(c.s, c.args[0], 'v'))
		return nil, false
	}
	I["os.Getenv"] = func(c *icall) ([]*State, bool) { c.set(litStr("")); return nil, false }

	// ---------------- net/http pure helpers ----------------
	I["net/http.CanonicalHeaderKey"] = func(c *icall) ([]*State, bool) {
		if s := c.str(0); s.K == SLit {
			c.set(litStr(http.CanonicalHeaderKey(s.S)))
			return nil, false
		}
		panic(engineErr("CanonicalHeaderKey of a symbolic key"))
	}
	I["net/textproto.CanonicalMIMEHeaderKey"] = I["net/http.CanonicalHeaderKey"]

	// ---------------- regexp ----------------
	compile := func(must bool) intrinsic {
		return func(c *icall) ([]*State, bool) {
			pat := c.str(0)
			if pat.K == SLit {
				if _, err := regexp.Compile(pat.S); err != nil {
					if must {
						panic(goPanic{"regexp.MustCompile: " + err.Error()})
					}
					c.setTuple(PtrV{}, c.opaqueErr(litStr(err.Error())))
					return nil, false
				}
				p := c.s.alloc(OpaqueObj{Kind: "regex", ID: "lit:" + pat.S})
				if must {
					c.set(p)
				} else {
					c.setTuple(p, IfaceV{})
				}
				return nil, false
			}
			// symbolic pattern: compiles or not (uninterpreted), identity = the pattern string
			ok := c.w.applyUF(c.s, "regexp.compiles", []Value{pat}, "Bool", "bool")
			depth := len(c.s.stack())
			dest := c.dest
			e := c.opaqueErr(litStr("regexp: bad pattern"))
			return c.w.branch(c.s, ok,
				func(st *State) {
					p := st.alloc(OpaqueObj{Kind: "regex", ID: "pat", Data: pat})
					if dest != nil {
						if must {
							st.stack()[depth-1].Env[dest] = p
						} else {
							st.stack()[depth-1].Env[dest] = TupleV{[]Value{p, IfaceV{}}}
						}
					}
				},
				func(st *State) {
					if must {
						panic(goPanic{"regexp.MustCompile: bad pattern"})
					}
					if dest != nil {
						st.stack()[depth-1].Env[dest] = TupleV{[]Value{PtrV{}, e}}
					}
				})
		}
	}
	I["regexp.Compile"] = compile(false)
	I["regexp.MustCompile"] = compile(true)
	I["(*regexp.Regexp).MatchString"] = func(c *icall) ([]*State, bool) {
		p := c.args[0].(PtrV)
		if p.Obj == 0 {
			panic(goPanic{"nil *regexp.Regexp"})
		}
		o := c.s.Heap[p.Obj].(OpaqueObj)
		sv := c.str(1)
		switch {
		case strings.HasPrefix(o.ID, "lit:") && sv.K == SLit:
			c.set(mkBool(regexp.MustCompile(o.ID[4:]).MatchString(sv.S)))
		case o.ID == "pat":
			c.set(BoolV{c.w.applyUF(c.s, "regex.matchpat", []Value{o.Data, sv}, "Bool", "bool")})
		default:
			c.set(BoolV{c.w.applyUF(c.s, "regex.match", []Value{litStr(strings.TrimPrefix(o.ID, "sym:")), sv}, "Bool", "bool")})
		}
		return nil, false
	}
	I["(*regexp.Regexp).ReplaceAllString"] = func(c *icall) ([]*State, bool) {
		p := c.args[0].(PtrV)
		o := c.s.Heap[p.Obj].(OpaqueObj)
		src, repl := c.str(1), c.str(2)
		if strings.HasPrefix(o.ID, "lit:") && src.K == SLit && repl.K == SLit {
			c.set(litStr(regexp.MustCompile(o.ID[4:]).ReplaceAllString(src.S, repl.S)))
			return nil, false
		}
		id := Value(litStr(o.ID))
		if o.ID == "pat" {
			id = o.Data
		}
		c.set(opaqueStr(c.w.applyUF(c.s, "regex.replace", []Value{id, src, repl}, "String", "string")))
		return nil, false
	}
	I["(*regexp.Regexp).String"] = func(c *icall) ([]*State, bool) {
		o := c.s.Heap[c.args[0].(PtrV).Obj].(OpaqueObj)
		if o.ID == "pat" {
			c.set(o.Data)
		} else {
			c.set(litStr(o.ID[4:]))
		}
		return nil, false
	}

	// ---------------- reflect ----------------
	I["reflect.DeepEqual"] = func(c *icall) ([]*State, bool) {
		a, b := c.args[0].(IfaceV), c.args[1].(IfaceV)
		c.set(BoolV{c.w.deepEq(c.s, a, b)})
		return nil, false
	}
}

var splitMax = 4

// indexOf is strings.Index as a term, tied to strings.Contains (the string abstraction keeps
// the two apart otherwise): idx >= -1, and idx >= 0 exactly when the string contains the other.
func (c *icall) indexOf(a, sep StrV) IntV {
	// a concatenation is scanned piece by piece: pieces the path condition shows free of the
	// separator are skipped, the first literal piece containing it gives the position
	if a.K == SOpaque && sep.K == SLit && sep.S != "" {
		if leaves := flattenConcat(a.T); len(leaves) > 1 {
			var acc []string
			sum := func(extra int) IntV {
				if len(acc) == 0 {
					return mkInt(int64(extra))
				}
				t := acc[0]
				if len(acc) > 1 {
					t = "(+ " + strings.Join(acc, " ") + ")"
				}
				if extra != 0 {
					t = "(+ " + t + " " + strconv.Itoa(extra) + ")"
				}
				return symInt(t)
			}
			decided := true
			for _, l := range leaves {
				lv := opaqueStr(l)
				if lv.K == SLit {
					if i := strings.Index(lv.S, sep.S); i >= 0 {
						return sum(i)
					}
					// a separator longer than one byte could straddle two pieces
					if len(sep.S) > 1 {
						decided = false
						break
					}
					acc = append(acc, strconv.Itoa(len(lv.S)))
					continue
				}
				if len(sep.S) > 1 || c.w.feasible(c.s, strContains(lv, sep)) {
					decided = false
					break
				}
				acc = append(acc, strLen(lv).T)
			}
			if decided {
				return mkInt(-1)
			}
		}
	}
	t := "(str.indexof " + a.term() + " " + sep.term() + " 0)"
	c.s.addPC("(>= " + t + " (- 1))")
	c.s.addPC(tEq("(>= "+t+" 0)", strContains(a, sep)))
	c.s.addPC("(or (= " + t + " (- 1)) (<= (+ " + t + " " + strLen(sep).T + ") " + strLen(a).T + "))")
	return symInt(t)
}

func intToStr(n IntV) StrV {
	if n.C {
		return litStr(strconv.FormatInt(n.N, 10))
	}
	r := opaqueStr("(ite (>= " + n.T + " 0) (str.from_int " + n.T + ") (str.++ \"-\" (str.from_int (- " + n.T + "))))")
	r.FromInt = n.T
	return r
}

func (c *icall) forkBool(cond string, ifTrue, ifFalse Value) ([]*State, bool) {
	depth := len(c.s.stack())
	dest := c.dest
	return c.w.branch(c.s, cond,
		func(st *State) {
			if dest != nil {
				st.stack()[depth-1].Env[dest] = ifTrue
			}
		},
		func(st *State) {
			if dest != nil {
				st.stack()[depth-1].Env[dest] = ifFalse
			}
		})
}

func (c *icall) forkVals(conds []string, vals []StrV) ([]*State, bool) {
	depth := len(c.s.stack())
	dest := c.dest
	return c.w.forkChoices(c.s, conds, func(st *State, i int) {
		if dest != nil {
			st.stack()[depth-1].Env[dest] = vals[i]
		}
	})
}

// splitChars splits a chars string at a one-byte separator by forking over separator positions.
func (c *icall) splitChars(sc []string, ch string, limit int) ([]*State, bool) {
	n := len(sc)
	nsym := 0
	for _, x := range sc {
		if !charInt(x).C {
			nsym++
		}
	}
	if nsym > 20 {
		panic(engineErr("strings.Split on a string with more than 20 symbolic bytes"))
	}
	// enumerate subsets lazily: walk positions, forking on "is separator"
	type part struct {
		conds []string
		cuts  []int
	}
	work := []part{{}}
	for i := 0; i < n; i++ {
		var next []part
		for _, p := range work {
			if limit > 0 && len(p.cuts) >= limit-1 {
				next = append(next, p)
				continue
			}
			eq := charEq(sc[i], ch)
			if eq != "false" {
				next = append(next, part{append(append([]string(nil), p.conds...), eq), append(append([]int(nil), p.cuts...), i)})
			}
			if eq != "true" {
				next = append(next, part{append(append([]string(nil), p.conds...), tNot(eq)), p.cuts})
			}
		}
		work = next
		if len(work) > 4096 {
			panic(engineErr("strings.Split: too many separator placements"))
		}
	}
	conds := make([]string, len(work))
	for i, p := range work {
		conds[i] = tAnd(p.conds...)
	}
	depth := len(c.s.stack())
	dest := c.dest
	return c.w.forkChoices(c.s, conds, func(st *State, i int) {
		var parts []StrV
		prev := 0
		for _, cut := range work[i].cuts {
			parts = append(parts, StrV{K: SChars, C: sc[prev:cut]})
			prev = cut + 1
		}
		parts = append(parts, StrV{K: SChars, C: sc[prev:]})
		if dest != nil {
			st.stack()[depth-1].Env[dest] = strSliceVal(st, parts)
		}
	})
}

func (w *Worker) strMap(s *State, a StrV, f func(string) string, uf string) StrV {
	switch a.K {
	case SLit:
		if uf == "strings.ToLower" {
			return litStr(strings.ToLower(a.S))
		}
		return litStr(strings.ToUpper(a.S))
	case SChars:
		out := make([]string, len(a.C))
		for i, c := range a.C {
			out[i] = f(c)
		}
		return StrV{K: SChars, C: out}
	}
	// a concatenation is mapped piece by piece (case mapping is byte-local for the ASCII
	// letters these programs compare; pieces are whole strings the program concatenated)
	if leaves := flattenConcat(a.T); len(leaves) > 1 {
		out := litStr("")
		for _, l := range leaves {
			out = strConcat(out, w.strMap(s, opaqueStr(l), f, uf))
		}
		return out
	}
	return opaqueStr(w.applyUF(s, uf, []Value{a}, "String", "string"))
}

// sprint: fmt.Sprint (a space between operands when neither is a string) and
// fmt.Sprintln (a space between all operands, newline at the end).
func (w *Worker) sprint(s *State, args []Value, ln bool) StrV {
	isStr := func(a Value) bool {
		if iv, ok := a.(IfaceV); ok && !iv.IsNil() && iv.Typ != nil {
			if b, ok := iv.Typ.Underlying().(*types.Basic); ok && b.Info()&types.IsString != 0 {
				return true
			}
		}
		return false
	}
	r := litStr("")
	for i, a := range args {
		if i > 0 && (ln || (!isStr(a) && !isStr(args[i-1]))) {
			r = strConcat(r, litStr(" "))
		}
		r = strConcat(r, w.fmtValue(s, a, 'v'))
	}
	if ln {
		r = strConcat(r, litStr("\n"))
	}
	return r
}

func (w *Worker) fmtValue(s *State, a Value, verb byte) StrV {
	if iv, ok := a.(IfaceV); ok {
		if iv.IsNil() {
			return litStr("<nil>")
		}
		if iv.Opaque != "" {
			if m, ok := iv.V.(StrV); ok {
				return m
			}
			return litStr(iv.Opaque)
		}
		a = iv.V
		if isNamed(iv.Typ, "time", "Duration") || isNamed(iv.Typ, "net/url", "URL") {
			return opaqueStr(w.E.freshVar(s, "fmt", "String"))
		}
	}
	switch x := a.(type) {
	case StrV:
		if verb == 'q' {
			if x.K == SLit {
				return litStr(strconv.Quote(x.S))
			}
			return strConcatN(litStr(`"`), x, litStr(`"`))
		}
		return x
	case IntV:
		if verb == 'x' || verb == 'c' {
			if x.C {
				return litStr(fmt.Sprintf("%"+string(verb), x.N))
			}
			return opaqueStr(w.E.freshVar(s, "fmt", "String"))
		}
		return intToStr(x)
	case BoolV:
		if x.IsLit() {
			return litStr(x.T)
		}
		return opaqueStr(tIte(x.T, `"true"`, `"false"`))
	case FloatV:
		return litStr(fmt.Sprint(x.F))
	}
	if verb == 'x' {
		// %x of bytes: an arbitrary lower-case hex string
		v := w.E.freshVar(s, "hex", "String")
		s.addPC("(str.in_re " + v + " (re.* (re.union (re.range \"0\" \"9\") (re.range \"a\" \"f\"))))")
		if sl, ok := a.(SliceV); ok && sl.Obj != 0 {
			if b, ok := s.Heap[sl.Obj].(BlobV); ok && b.Kind == "str" {
				// two hex digits per byte: empty iff the bytes are empty
				s.addPC(tEq(tEq(v, `""`), tEq(b.S.term(), `""`)))
			}
		}
		return opaqueStr(v)
	}
	// anything else (slices, structs, pointers, errors with methods): an arbitrary string
	return opaqueStr(w.E.freshVar(s, "fmt", "String"))
}

func (w *Worker) sprintf(s *State, format StrV, args []Value) StrV {
	if format.K != SLit {
		panic(engineErr("Sprintf with a symbolic format"))
	}
	f := format.S
	r := litStr("")
	ai := 0
	for i := 0; i < len(f); i++ {
		if f[i] != '%' {
			j := i
			for j < len(f) && f[j] != '%' {
				j++
			}
			r = strConcat(r, litStr(f[i:j]))
			i = j - 1
			continue
		}
		i++
		if i >= len(f) {
			break
		}
		if f[i] == '%' {
			r = strConcat(r, litStr("%"))
			continue
		}
		// flags/width: only plain verbs are precise
		plain := true
		for i < len(f) && strings.IndexByte("+-# 0123456789.", f[i]) >= 0 {
			plain = false
			i++
		}
		if i >= len(f) {
			break
		}
		if ai >= len(args) {
			r = strConcat(r, litStr("%!"+string(f[i])+"(MISSING)"))
			continue
		}
		a := args[ai]
		ai++
		if !plain {
			if allLitIface(a) {
				r = strConcat(r, w.fmtValue(s, a, f[i]))
			} else {
				r = strConcat(r, opaqueStr(w.E.freshVar(s, "fmt", "String")))
			}
			continue
		}
		r = strConcat(r, w.fmtValue(s, a, f[i]))
	}
	return r
}

func allLitIface(a Value) bool {
	if iv, ok := a.(IfaceV); ok {
		a = iv.V
	}
	return allLit([]Value{a})
}

// deepEq: reflect.DeepEqual for pointers to structs / structs / basics / slices of those.
func (w *Worker) deepEq(s *State, a, b IfaceV) string {
	if a.IsNil() || b.IsNil() {
		return fmt.Sprint(a.IsNil() && b.IsNil())
	}
	if !types.Identical(a.Typ, b.Typ) {
		return "false"
	}
	return w.deepEqVal(s, a.V, b.V)
}

func (w *Worker) deepEqVal(s *State, a, b Value) string {
	switch x := a.(type) {
	case PtrV:
		y := b.(PtrV)
		if x.Obj == 0 || y.Obj == 0 {
			return fmt.Sprint(x.Obj == y.Obj)
		}
		if x.Obj == y.Obj && pathEq(x.Path, y.Path) {
			return "true"
		}
		return w.deepEqVal(s, s.load(x), s.load(y))
	case StructV:
		y := b.(StructV)
		var cs []string
		for i := range x.F {
			cs = append(cs, w.deepEqVal(s, x.F[i], y.F[i]))
		}
		return tAnd(cs...)
	case SliceV:
		y := b.(SliceV)
		if (x.Obj == 0) != (y.Obj == 0) {
			return "false"
		}
		if x.Len != y.Len {
			return "false"
		}
		if x.Obj == 0 {
			return "true"
		}
		xe, ye := sliceElems(s, x), sliceElems(s, y)
		var cs []string
		for i := range xe {
			cs = append(cs, w.deepEqVal(s, xe[i], ye[i]))
		}
		return tAnd(cs...)
	case IfaceV:
		return w.deepEq(s, x, b.(IfaceV))
	case MapV:
		panic(engineErr("DeepEqual on maps"))
	}
	return valueEq(a, b)
}
