package main

import (
	"fmt"
	"go/constant"
	"go/token"
	"go/types"
	"math"
	"strings"

	"golang.org/x/tools/go/ssa"
)

func (w *Worker) val(s *State, f *Frame, v ssa.Value) Value {
	switch c := v.(type) {
	case *ssa.Const:
		return constVal(c)
	case *ssa.Function:
		return FuncV{Fn: c}
	case *ssa.Global:
		return w.global(s, c)
	case *ssa.Builtin:
		panic(engineErr("builtin used as value: " + c.Name()))
	}
	x, ok := f.Env[v]
	if !ok {
		panic(engineErr(fmt.Sprintf("no value for %s = %s in %s", v.Name(), v, f.Fn)))
	}
	return x
}

func constVal(c *ssa.Const) Value {
	if c.Value == nil {
		return zero(c.Type())
	}
	t := c.Type().Underlying()
	if b, ok := t.(*types.Basic); ok && b.Info()&types.IsFloat != 0 {
		f, _ := constant.Float64Val(c.Value)
		return FloatV{F: f}
	}
	switch c.Value.Kind() {
	case constant.Int:
		if n, ok := constant.Int64Val(c.Value); ok {
			return mkInt(n)
		}
		s := c.Value.ExactString()
		return IntV{T: s}
	case constant.Bool:
		return mkBool(constant.BoolVal(c.Value))
	case constant.String:
		return litStr(constant.StringVal(c.Value))
	case constant.Float:
		f, _ := constant.Float64Val(c.Value)
		if b, ok := t.(*types.Basic); ok && b.Info()&types.IsInteger != 0 {
			return mkInt(int64(f))
		}
		return FloatV{F: f}
	}
	panic(engineErr("const kind " + c.String()))
}

// global returns the address of a package-level variable, allocating it lazily.
func (w *Worker) global(s *State, g *ssa.Global) PtrV {
	e := w.E
	e.gmu.Lock()
	id, ok := e.globals[g]
	if !ok {
		e.nextGlob--
		id = e.nextGlob
		e.globals[g] = id
	}
	e.gmu.Unlock()
	if _, have := s.Heap[id]; !have {
		elem := g.Type().(*types.Pointer).Elem()
		pkgPath := ""
		if g.Pkg != nil {
			pkgPath = g.Pkg.Pkg.Path()
		}
		var v Value
		if !e.isSSOPath(pkgPath) {
			switch elem.Underlying().(type) {
			case *types.Interface:
				v = IfaceV{Opaque: g.String()}
			case *types.Pointer:
				p := s.alloc(OpaqueObj{Kind: "global", ID: g.String()})
				v = p
			default:
				v = zero(elem)
			}
		} else {
			v = zero(elem)
		}
		s.Heap[id] = v
	}
	return PtrV{Obj: id}
}

func (w *Worker) jump(f *Frame, to *ssa.BasicBlock) {
	f.Prev, f.Block, f.PC = f.Block, to, 0
	f.Visits[to.Index]++
	if int(f.Visits[to.Index]) > w.E.Cfg.Unwind {
		panic(engineErr(fmt.Sprintf("unwinding bound %d exceeded in %s block %d", w.E.Cfg.Unwind, f.Fn, to.Index)))
	}
}

func (w *Worker) feasible(s *State, cond string) bool {
	if cond == "true" {
		return true
	}
	if cond == "false" {
		return false
	}
	return w.S.Feasible(s.Decls, s.PC, cond)
}

// branch forks s on the Bool term c; thenF/elseF position each side.
func (w *Worker) branch(s *State, c string, onTrue0, onFalse0 func(st *State)) ([]*State, bool) {
	onTrue := func(st *State) { guarded(st, func() { onTrue0(st) }) }
	onFalse := func(st *State) { guarded(st, func() { onFalse0(st) }) }
	if c == "true" {
		onTrue(s)
		return nil, false
	}
	if c == "false" {
		onFalse(s)
		return nil, false
	}
	var tOK, fOK bool
	if s.FreshBranch != nil && s.FreshBranch[c] {
		// a just-drawn unconstrained boolean: both sides feasible without a query
		delete(s.FreshBranch, c)
		tOK, fOK = true, true
	} else {
		tOK = w.feasible(s, c)
		if !tOK {
			fOK = true // path condition is satisfiable by construction
		} else {
			fOK = w.feasible(s, tNot(c))
		}
	}
	var out []*State
	if tOK && fOK {
		o := s.Fork()
		o.addPC(tNot(c))
		onFalse(o)
		out = append(out, o)
		s.addPC(c)
		onTrue(s)
		return append(out, s), true
	}
	if tOK {
		s.addPC(c)
		onTrue(s)
		return nil, false
	}
	s.addPC(tNot(c))
	onFalse(s)
	return nil, false
}

// step executes one instruction. done=true: this state ended; forks are its successors.
func (w *Worker) step(s *State, f *Frame, in ssa.Instruction) ([]*State, bool) {
	adv := func() { f.PC++ }
	switch x := in.(type) {
	case *ssa.Alloc:
		f.Env[x] = s.alloc(zero(x.Type().(*types.Pointer).Elem()))
		adv()
	case *ssa.FieldAddr:
		p := w.val(s, f, x.X).(PtrV)
		if p.Obj == 0 {
			panic(goPanic{"nil pointer dereference"})
		}
		f.Env[x] = PtrV{p.Obj, extPath(p.Path, x.Field)}
		adv()
	case *ssa.Field:
		f.Env[x] = w.val(s, f, x.X).(StructV).F[x.Field]
		adv()
	case *ssa.UnOp:
		v := w.val(s, f, x.X)
		switch x.Op {
		case token.MUL:
			f.Env[x] = s.load(v.(PtrV))
		case token.NOT:
			f.Env[x] = BoolV{tNot(v.(BoolV).T)}
		case token.SUB:
			switch a := v.(type) {
			case IntV:
				if a.C {
					f.Env[x] = mkInt(-a.N)
				} else {
					f.Env[x] = symInt("(- " + a.T + ")")
				}
			case FloatV:
				f.Env[x] = FloatV{F: -a.F}
			}
		case token.ARROW:
			return w.chanRecv(s, f, x, v.(ChanV), x.CommaOk)
		case token.XOR:
			a := v.(IntV)
			if !a.C {
				panic(engineErr("bitwise complement of symbolic int"))
			}
			f.Env[x] = mkInt(^a.N)
		default:
			panic(engineErr("unop " + x.Op.String()))
		}
		adv()
	case *ssa.Store:
		s.store(w.val(s, f, x.Addr).(PtrV), w.val(s, f, x.Val))
		adv()
	case *ssa.BinOp:
		f.Env[x] = w.binop(s, x.Op, w.val(s, f, x.X), w.val(s, f, x.Y), x.X.Type())
		adv()
	case *ssa.Phi:
		// all phis of a block read their operands simultaneously
		i := f.PC
		var vals []Value
		var phis []*ssa.Phi
		for ; i < len(f.Block.Instrs); i++ {
			ph, ok := f.Block.Instrs[i].(*ssa.Phi)
			if !ok {
				break
			}
			for k, p := range f.Block.Preds {
				if p == f.Prev {
					vals = append(vals, w.val(s, f, ph.Edges[k]))
					phis = append(phis, ph)
					break
				}
			}
		}
		if len(phis) != i-f.PC {
			panic(engineErr("phi without matching predecessor"))
		}
		for k, ph := range phis {
			f.Env[ph] = vals[k]
		}
		f.PC = i
	case *ssa.Extract:
		f.Env[x] = w.val(s, f, x.Tuple).(TupleV).E[x.Index]
		adv()
	case *ssa.MakeInterface:
		f.Env[x] = IfaceV{Typ: x.X.Type(), V: w.val(s, f, x.X)}
		adv()
	case *ssa.MakeClosure:
		fv := FuncV{Fn: x.Fn.(*ssa.Function)}
		for _, b := range x.Bindings {
			fv.Free = append(fv.Free, w.val(s, f, b))
		}
		f.Env[x] = fv
		adv()
	case *ssa.ChangeType:
		f.Env[x] = w.val(s, f, x.X)
		adv()
	case *ssa.ChangeInterface:
		f.Env[x] = w.val(s, f, x.X)
		adv()
	case *ssa.Convert:
		f.Env[x] = w.convert(s, w.val(s, f, x.X), x.X.Type(), x.Type())
		adv()
	case *ssa.Jump:
		w.jump(f, f.Block.Succs[0])
	case *ssa.If:
		c := w.val(s, f, x.Cond).(BoolV).T
		blk := f.Block
		depth := len(s.stack())
		return w.branch(s, c,
			func(st *State) { w.jump(st.stack()[depth-1], blk.Succs[0]) },
			func(st *State) { w.jump(st.stack()[depth-1], blk.Succs[1]) })
	case *ssa.Defer:
		d := deferred{}
		if x.Call.IsInvoke() {
			iv := w.val(s, f, x.Call.Value).(IfaceV)
			d.Iface = &iv
			d.Method = x.Call.Method
		} else if b, ok := x.Call.Value.(*ssa.Builtin); ok {
			panic(engineErr("defer of builtin " + b.Name()))
		} else {
			d.Fn = w.val(s, f, x.Call.Value)
		}
		for _, a := range x.Call.Args {
			d.Args = append(d.Args, w.val(s, f, a))
		}
		f.Defers = append(f.Defers[:len(f.Defers):len(f.Defers)], d)
		adv()
	case *ssa.RunDefers:
		if len(f.Defers) == 0 {
			adv()
			return nil, false
		}
		d := f.Defers[len(f.Defers)-1]
		f.Defers = f.Defers[:len(f.Defers)-1]
		// PC not advanced: RunDefers re-executes after the deferred call returns
		if d.Iface != nil {
			return w.invoke(s, f, nil, *d.Iface, d.Method, d.Args)
		}
		return w.call(s, f, nil, d.Fn, d.Args)
	case *ssa.Return:
		var rv Value = UnitV{}
		if len(x.Results) == 1 {
			rv = w.val(s, f, x.Results[0])
		} else if len(x.Results) > 1 {
			t := TupleV{E: make([]Value, len(x.Results))}
			for i, r := range x.Results {
				t.E[i] = w.val(s, f, r)
			}
			rv = t
		}
		w.ret(s, f, rv)
	case *ssa.Call:
		cv := x.Call
		args := make([]Value, len(cv.Args))
		for i, a := range cv.Args {
			args[i] = w.val(s, f, a)
		}
		adv()
		if cv.IsInvoke() {
			return w.invoke(s, f, x, w.val(s, f, cv.Value).(IfaceV), cv.Method, args)
		}
		if b, ok := cv.Value.(*ssa.Builtin); ok {
			return w.builtin(s, f, x, b.Name(), args, cv.Args)
		}
		return w.call(s, f, x, w.val(s, f, cv.Value), args)
	default:
		return w.stepMore(s, f, in)
	}
	return nil, false
}

func (w *Worker) ret(s *State, f *Frame, rv Value) {
	st := s.stack()
	s.setStack(st[:len(st)-1])
	s.Depth--
	if len(st) > 1 {
		c := st[len(st)-2]
		if f.Dest != nil {
			c.Env[f.Dest] = rv
		}
	}
}

func (w *Worker) invoke(s *State, f *Frame, dest ssa.Value, recv IfaceV, method *types.Func, args []Value) ([]*State, bool) {
	if recv.Opaque != "" {
		if method.Name() == "Error" {
			if dest != nil {
				if m, ok := recv.V.(StrV); ok {
					f.Env[dest] = m
				} else {
					f.Env[dest] = litStr(recv.Opaque)
				}
			}
			return nil, false
		}
		panic(engineErr("invoke " + method.Name() + " on opaque value " + recv.Opaque))
	}
	if recv.Typ == nil {
		panic(goPanic{"nil interface method call " + method.Name()})
	}
	m := w.E.Prog.LookupMethod(recv.Typ, method.Pkg(), method.Name())
	if m == nil {
		panic(engineErr("no method " + method.Name() + " on " + recv.Typ.String()))
	}
	return w.call(s, f, dest, FuncV{Fn: m}, append([]Value{recv.V}, args...))
}

func (w *Worker) binop(s *State, op token.Token, a, b Value, xt types.Type) Value {
	switch x := a.(type) {
	case IntV:
		y := b.(IntV)
		switch op {
		case token.EQL, token.NEQ, token.LSS, token.LEQ, token.GTR, token.GEQ:
			return intCmp(op, x, y)
		}
		return w.arith(s, op, x, y, xt)
	case FloatV:
		y := b.(FloatV)
		if x.Ns != "" && y.Ns == "" && float64(int64(y.F*float64(x.Div))) == y.F*float64(x.Div) {
			switch op {
			case token.EQL, token.NEQ, token.LSS, token.LEQ, token.GTR, token.GEQ:
				return intCmp(op, symInt(x.Ns), mkInt(int64(y.F*float64(x.Div))))
			}
		}
		if x.Ns != "" || y.Ns != "" {
			panic(engineErr("floating-point arithmetic on a symbolic duration"))
		}
		switch op {
		case token.ADD:
			return FloatV{F: x.F + y.F}
		case token.SUB:
			return FloatV{F: x.F - y.F}
		case token.MUL:
			return FloatV{F: x.F * y.F}
		case token.QUO:
			return FloatV{F: x.F / y.F}
		case token.EQL:
			return mkBool(x.F == y.F)
		case token.NEQ:
			return mkBool(x.F != y.F)
		case token.LSS:
			return mkBool(x.F < y.F)
		case token.LEQ:
			return mkBool(x.F <= y.F)
		case token.GTR:
			return mkBool(x.F > y.F)
		case token.GEQ:
			return mkBool(x.F >= y.F)
		}
	case BoolV:
		y := b.(BoolV)
		switch op {
		case token.EQL:
			if x.IsLit() && y.IsLit() {
				return mkBool(x.T == y.T)
			}
			return BoolV{tEq(x.T, y.T)}
		case token.NEQ:
			if x.IsLit() && y.IsLit() {
				return mkBool(x.T != y.T)
			}
			return BoolV{tNot(tEq(x.T, y.T))}
		case token.AND:
			return BoolV{tAnd(x.T, y.T)}
		case token.OR:
			return BoolV{tOr(x.T, y.T)}
		}
	case StrV:
		y := b.(StrV)
		switch op {
		case token.EQL:
			return BoolV{strEq(x, y)}
		case token.NEQ:
			return BoolV{tNot(strEq(x, y))}
		case token.ADD:
			return strConcat(x, y)
		case token.LSS:
			return BoolV{strLess(x, y)}
		case token.GTR:
			return BoolV{strLess(y, x)}
		case token.LEQ:
			return BoolV{tNot(strLess(y, x))}
		case token.GEQ:
			return BoolV{tNot(strLess(x, y))}
		}
	case TimeV:
		y := b.(TimeV)
		switch op {
		case token.EQL:
			return BoolV{tEq(x.T, y.T)}
		case token.NEQ:
			return BoolV{tNot(tEq(x.T, y.T))}
		}
	case PtrV:
		y := b.(PtrV)
		eq := x.Obj == y.Obj && pathEq(x.Path, y.Path)
		if op == token.NEQ {
			eq = !eq
		}
		return mkBool(eq)
	case SliceV:
		y := b.(SliceV)
		if y.Obj != 0 && x.Obj != 0 {
			panic(engineErr("slice compared with non-nil"))
		}
		eq := x.Obj == 0 && y.Obj == 0
		if op == token.NEQ {
			eq = !eq
		}
		return mkBool(eq)
	case MapV:
		y := b.(MapV)
		eq := x.Obj == 0 && y.Obj == 0
		if op == token.NEQ {
			eq = !eq
		}
		return mkBool(eq)
	case ChanV:
		y := b.(ChanV)
		eq := x.Obj == y.Obj
		if op == token.NEQ {
			eq = !eq
		}
		return mkBool(eq)
	case FuncV:
		y := b.(FuncV)
		eq := x.Nil == y.Nil && (x.Nil || x.Fn == y.Fn)
		if op == token.NEQ {
			eq = !eq
		}
		return mkBool(eq)
	case IfaceV:
		y := b.(IfaceV)
		r := ifaceEq(x, y)
		if op == token.NEQ {
			r = tNot(r)
		}
		return BoolV{r}
	case StructV:
		y := b.(StructV)
		r := valueEq(x, y)
		if op == token.NEQ {
			r = tNot(r)
		}
		return BoolV{r}
	case ArrayV:
		r := valueEq(x, b)
		if op == token.NEQ {
			r = tNot(r)
		}
		return BoolV{r}
	}
	panic(engineErr(fmt.Sprintf("binop %s on %T", op, a)))
}

func ifaceEq(x, y IfaceV) string {
	switch {
	case x.IsNil() || y.IsNil():
		return fmt.Sprint(x.IsNil() && y.IsNil())
	case x.Opaque != "" || y.Opaque != "":
		return fmt.Sprint(x.Opaque == y.Opaque)
	case !types.Identical(x.Typ, y.Typ):
		return "false"
	}
	return valueEq(x.V, y.V)
}

// valueEq is Go's == on comparable values, as a Bool term.
func valueEq(a, b Value) string {
	switch x := a.(type) {
	case IntV:
		return intCmp(token.EQL, x, b.(IntV)).T
	case BoolV:
		y := b.(BoolV)
		if x.IsLit() && y.IsLit() {
			return fmt.Sprint(x.T == y.T)
		}
		return tEq(x.T, y.T)
	case StrV:
		return strEq(x, b.(StrV))
	case TimeV:
		return tEq(x.T, b.(TimeV).T)
	case FloatV:
		return fmt.Sprint(x.F == b.(FloatV).F)
	case PtrV:
		y := b.(PtrV)
		return fmt.Sprint(x.Obj == y.Obj && pathEq(x.Path, y.Path))
	case StructV:
		y := b.(StructV)
		var cs []string
		for i := range x.F {
			cs = append(cs, valueEq(x.F[i], y.F[i]))
		}
		return tAnd(cs...)
	case ArrayV:
		y := b.(ArrayV)
		var cs []string
		for i := range x.E {
			cs = append(cs, valueEq(x.E[i], y.E[i]))
		}
		return tAnd(cs...)
	case IfaceV:
		return ifaceEq(x, b.(IfaceV))
	case ChanV:
		return fmt.Sprint(x.Obj == b.(ChanV).Obj)
	case FuncV:
		y := b.(FuncV)
		return fmt.Sprint(x.Nil && y.Nil)
	}
	panic(engineErr(fmt.Sprintf("valueEq on %T", a)))
}

func typeBits(t types.Type) (bits int, signed bool) {
	b, ok := t.Underlying().(*types.Basic)
	if !ok {
		return 64, true
	}
	switch b.Kind() {
	case types.Int8:
		return 8, true
	case types.Int16:
		return 16, true
	case types.Int32:
		return 32, true
	case types.Uint8:
		return 8, false
	case types.Uint16:
		return 16, false
	case types.Uint32:
		return 32, false
	case types.Uint, types.Uint64, types.Uintptr:
		return 64, false
	}
	return 64, true
}

func wrapConcrete(n int64, bits int, signed bool) int64 {
	switch {
	case bits == 64:
		return n
	case signed:
		sh := uint(64 - bits)
		return (n << sh) >> sh
	default:
		return n & (1<<uint(bits) - 1)
	}
}

func (w *Worker) arith(s *State, op token.Token, x, y IntV, t types.Type) Value {
	bits, signed := typeBits(t)
	if x.C && y.C {
		var r int64
		switch op {
		case token.ADD:
			r = x.N + y.N
		case token.SUB:
			r = x.N - y.N
		case token.MUL:
			r = x.N * y.N
		case token.QUO:
			if y.N == 0 {
				panic(goPanic{"integer divide by zero"})
			}
			if signed {
				r = x.N / y.N
			} else {
				r = int64(uint64(x.N) / uint64(y.N))
			}
		case token.REM:
			if y.N == 0 {
				panic(goPanic{"integer divide by zero"})
			}
			if signed {
				r = x.N % y.N
			} else {
				r = int64(uint64(x.N) % uint64(y.N))
			}
		case token.AND:
			r = x.N & y.N
		case token.OR:
			r = x.N | y.N
		case token.XOR:
			r = x.N ^ y.N
		case token.SHL:
			r = x.N << uint64(y.N)
		case token.SHR:
			if signed {
				r = x.N >> uint64(y.N)
			} else {
				r = int64(uint64(x.N) >> uint64(y.N))
			}
		case token.AND_NOT:
			r = x.N &^ y.N
		default:
			panic(engineErr("arith op " + op.String()))
		}
		return mkInt(wrapConcrete(r, bits, signed))
	}
	switch op {
	case token.ADD, token.SUB:
		o := "+"
		if op == token.SUB {
			o = "-"
		}
		if y.C && y.N == 0 {
			return x
		}
		r := "(" + o + " " + x.T + " " + y.T + ")"
		if bits == 64 && signed {
			s.Overflow = append(s.Overflow, tNot(inInt64(r)))
		} else if bits == 64 {
			s.Overflow = append(s.Overflow, "(or (< "+r+" 0) (>= "+r+" "+two64+"))")
		} else {
			panic(engineErr("symbolic arithmetic on narrow integer type " + t.String()))
		}
		return symInt(r)
	case token.MUL:
		if x.C && x.N == 1 {
			return y
		}
		if y.C && y.N == 1 {
			return x
		}
		r := "(* " + x.T + " " + y.T + ")"
		if bits == 64 && signed {
			return symInt(wrap64(r))
		}
		panic(engineErr("symbolic multiplication on " + t.String()))
	case token.QUO, token.REM:
		if !y.C || y.N <= 0 {
			panic(engineErr("symbolic division by non-constant or non-positive divisor"))
		}
		d := y.T
		q := "(ite (>= " + x.T + " 0) (div " + x.T + " " + d + ") (- (div (- " + x.T + ") " + d + ")))"
		if op == token.QUO {
			return symInt(q)
		}
		return symInt("(- " + x.T + " (* " + d + " " + q + "))")
	}
	panic(engineErr("symbolic integer op " + op.String()))
}

func (w *Worker) convert(s *State, v Value, from, to types.Type) Value {
	fu, tu := from.Underlying(), to.Underlying()
	switch x := v.(type) {
	case IntV:
		if tb, ok := tu.(*types.Basic); ok {
			switch {
			case tb.Info()&types.IsInteger != 0:
				bits, signed := typeBits(to)
				if x.C {
					if bits == 64 {
						return x
					}
					return mkInt(wrapConcrete(x.N, bits, signed))
				}
				fb, fs := typeBits(from)
				if bits >= fb && (signed == fs || (signed && bits > fb)) || bits == 64 && fb == 64 {
					// widening or same-size reinterpretation: value range assumed compatible
					if bits == 64 && fb == 64 && signed != fs {
						// int64<->uint64 reinterpretation differs for negatives: flag as side condition
						s.Overflow = append(s.Overflow, "(< "+x.T+" 0)")
					}
					return x
				}
				if !signed {
					return symInt(fmt.Sprintf("(mod %s %d)", x.T, int64(1)<<uint(bits)))
				}
				panic(engineErr("symbolic narrowing conversion to " + to.String()))
			case tb.Info()&types.IsFloat != 0:
				if x.C {
					return FloatV{F: float64(x.N)}
				}
				panic(engineErr("symbolic int to float conversion"))
			case tb.Info()&types.IsString != 0:
				if x.C {
					return litStr(string(rune(x.N)))
				}
				panic(engineErr("symbolic rune to string conversion"))
			}
		}
	case FloatV:
		if tb, ok := tu.(*types.Basic); ok {
			if x.Ns != "" {
				if tb.Info()&types.IsInteger != 0 {
					// truncation toward zero of Ns/1e9
					d := fmt.Sprint(x.Div)
					return symInt("(ite (>= " + x.Ns + " 0) (div " + x.Ns + " " + d + ") (- (div (- " + x.Ns + ") " + d + ")))")
				}
				return x
			}
			if tb.Info()&types.IsInteger != 0 {
				if math.IsNaN(x.F) || math.IsInf(x.F, 0) {
					return mkInt(0)
				}
				return mkInt(int64(x.F))
			}
			return x
		}
	case StrV:
		if _, ok := tu.(*types.Basic); ok {
			return x
		}
		if sl, ok := tu.(*types.Slice); ok {
			if b, ok := sl.Elem().Underlying().(*types.Basic); ok && b.Kind() == types.Uint8 {
				return w.bytesOfString(s, x)
			}
			panic(engineErr("string to []rune conversion"))
		}
	case SliceV:
		if tb, ok := tu.(*types.Basic); ok && tb.Info()&types.IsString != 0 {
			return w.stringOfBytes(s, x)
		}
		if _, ok := fu.(*types.Slice); ok {
			if _, ok := tu.(*types.Slice); ok {
				return x
			}
		}
	}
	panic(engineErr(fmt.Sprintf("convert %T from %s to %s", v, from, to)))
}

func (w *Worker) bytesOfString(s *State, x StrV) Value {
	if cs, ok := x.chars(); ok {
		a := ArrayV{E: make([]Value, len(cs))}
		for i, c := range cs {
			if x.K == SLit {
				a.E[i] = mkInt(int64(x.S[i]))
			} else {
				a.E[i] = symInt(c)
			}
		}
		if len(cs) == 0 {
			p := s.alloc(a)
			return SliceV{p.Obj, 0, 0, 0}
		}
		p := s.alloc(a)
		return SliceV{p.Obj, 0, len(cs), len(cs)}
	}
	if x.K == SOpaque {
		if obj, ok := s.BlobOf[x.T]; ok {
			// the bytes of a structured document that travelled as a string
			return SliceV{obj, 0, -1, -1}
		}
	}
	p := s.alloc(BlobV{Kind: "str", S: x})
	return SliceV{p.Obj, 0, -1, -1}
}

func (w *Worker) stringOfBytes(s *State, x SliceV) Value {
	if x.Obj == 0 {
		return litStr("")
	}
	switch o := s.Heap[x.Obj].(type) {
	case BlobV:
		if o.Kind == "str" {
			return o.S
		}
		// a JSON document viewed as a string: opaque, tied to the object
		return opaqueStr(w.blobStr(s, x.Obj))
	case ArrayV:
		allC := true
		cs := make([]string, x.Len)
		bs := make([]byte, x.Len)
		for i := 0; i < x.Len; i++ {
			iv := o.E[x.Off+i].(IntV)
			cs[i] = iv.T
			if iv.C {
				bs[i] = byte(iv.N)
			} else {
				allC = false
			}
		}
		if allC {
			return litStr(string(bs))
		}
		return StrV{K: SChars, C: cs}
	}
	panic(engineErr("string of unknown byte slice"))
}

// blobStr gives a stable opaque String constant for a blob object.
func (w *Worker) blobStr(s *State, obj int) string {
	b := s.Heap[obj].(BlobV)
	if b.S.K == SOpaque && b.S.T != "" {
		return b.S.T
	}
	n := w.E.freshVar(s, "blob", "String")
	b.S = opaqueStr(n)
	s.Heap[obj] = b
	if s.BlobOf == nil {
		s.BlobOf = map[string]int{}
	}
	s.BlobOf[n] = obj
	return n
}

var _ = strings.Join
