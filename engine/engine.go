package main

import (
	"crypto/sha256"
	"fmt"
	"go/types"
	"os"
	"runtime/debug"
	"sort"
	"strings"
	"sync"
	"sync/atomic"
	"time"

	"golang.org/x/tools/go/ssa"
)

// Obligation result of one verifAssert on one path.
type AssertRes struct {
	Harness    string
	Label      string
	Res        string // unsat | sat | unknown...
	Cex        *Cex
	Nontrivial bool
}

type Cex struct {
	Property string                 `json:"property"`
	Harness  string                 `json:"harness"`
	Pkg      string                 `json:"pkg"`
	Label    string                 `json:"label"`
	Values   map[string]interface{} `json:"values"`
	UF       []CexUF                `json:"uf"`
	Trace    []string               `json:"trace"`
	Shaped   bool                   `json:"time_shaped"`
	Bounds   map[string]int         `json:"bounds,omitempty"`
	PathCond []string               `json:"path_condition,omitempty"`
}

type CexUF struct {
	Name   string        `json:"name"`
	Args   []interface{} `json:"args"`
	Result interface{}   `json:"result"`
}

type PathEnd struct {
	Kind string // done | panic | inconclusive | infeasible
	Msg  string
}

// Engine holds what is shared by all paths of one harness run.
type Engine struct {
	Prog    *ssa.Program
	Models  map[string]*ssa.Function
	RootPkg *ssa.Package
	Base    *State
	Cfg     Config
	Pool    *SolverPool

	gmu      sync.Mutex
	globals  map[*ssa.Global]int
	nextGlob int
	fresh    int64
	ufDecl   map[string]string

	mu            sync.Mutex
	Paths         int
	Ends          map[string]int
	Inconcl       map[string]int
	PanicsAt      map[string]int
	Results       []AssertRes
	Reached       map[string]int
	FnsHit        map[string]int
	FnObj         map[string]*ssa.Function
	ModelsHit     map[string]int
	Assumes       map[string]int
	OverflowPaths int
	Harness       string
	TraceOut      map[string][]string // selftest: the trace of each finished path
	Deadline      time.Time           // wall-clock budget of this harness (zero: none)
	cexCount      map[string]int
	PrecByLabel   map[string]int
	Samples       []string
	inInit        bool
	maxSteps      int
}

type Config struct {
	Workers   int
	Unwind    int
	MaxDepth  int
	TimeoutMs int
	MaxPaths  int
	Verbose   bool
}

func NewEngine(prog *ssa.Program, cfg Config) *Engine {
	return &Engine{Prog: prog, Cfg: cfg, Models: map[string]*ssa.Function{}, globals: map[*ssa.Global]int{}, ufDecl: map[string]string{},
		cexCount: map[string]int{}, PrecByLabel: map[string]int{}, Ends: map[string]int{}, Inconcl: map[string]int{}, PanicsAt: map[string]int{}, Reached: map[string]int{}, FnsHit: map[string]int{},
		FnObj: map[string]*ssa.Function{}, ModelsHit: map[string]int{}, Assumes: map[string]int{}, Pool: &SolverPool{}}
}

func (e *Engine) resetStats() {
	e.Paths = 0
	e.Ends = map[string]int{}
	e.Inconcl = map[string]int{}
	e.PanicsAt = map[string]int{}
	e.Results = nil
	e.Reached = map[string]int{}
	e.Samples = nil
	e.OverflowPaths = 0
}

func (e *Engine) freshName(prefix string) string {
	n := atomic.AddInt64(&e.fresh, 1)
	prefix = sanitize(prefix)
	return fmt.Sprintf("%s!%d", prefix, n)
}

func sanitize(s string) string {
	var b strings.Builder
	for _, c := range s {
		if c >= 'a' && c <= 'z' || c >= 'A' && c <= 'Z' || c >= '0' && c <= '9' || c == '_' || c == '.' {
			b.WriteRune(c)
		} else {
			b.WriteByte('_')
		}
	}
	if b.Len() == 0 {
		return "v"
	}
	return b.String()
}

func (e *Engine) freshVar(s *State, prefix, sort string) string {
	n := e.freshName(prefix)
	s.declare(n, sort)
	return n
}

func (e *Engine) isSSOPath(p string) bool {
	return strings.HasPrefix(p, "github.com/buzzfeed/sso")
}

func fnPkgPath(fn *ssa.Function) string {
	if fn.Pkg != nil {
		return fn.Pkg.Pkg.Path()
	}
	if o := fn.Object(); o != nil && o.Pkg() != nil {
		return o.Pkg().Path()
	}
	if fn.Origin() != nil && fn.Origin() != fn {
		return fnPkgPath(fn.Origin())
	}
	if p := fn.Parent(); p != nil {
		return fnPkgPath(p)
	}
	return ""
}

// InitPackages executes the package initialisers of sso packages (dependencies first).
func (e *Engine) InitPackages(root *ssa.Package, w *Worker) {
	e.Base = &State{Heap: map[int]Value{}, NextObj: 1, Mutex: map[string]MutexSt{}, Occ: map[string]int{}}
	e.Base.Threads = []*Thread{{ID: 0}}
	seen := map[*types.Package]bool{}
	e.inInit = true
	var visit func(p *types.Package)
	visit = func(p *types.Package) {
		if seen[p] {
			return
		}
		seen[p] = true
		for _, imp := range p.Imports() {
			visit(imp)
		}
		sp := e.Prog.Package(p)
		if sp == nil || !e.isSSOPath(p.Path()) || skipInit[p.Path()] {
			return
		}
		init := sp.Func("init")
		st := e.Base
		st.Threads[0].Stack = []*Frame{newFrame(init, nil)}
		succ, end := w.runPath(st)
		if len(succ) != 0 {
			panic("package init forked: " + p.Path())
		}
		if end.Kind != "done" {
			panic("package init of " + p.Path() + " did not finish: " + end.Kind + " " + end.Msg)
		}
	}
	visit(root.Pkg)
	e.inInit = false
	e.Base.Steps = 0
}

var skipInit = map[string]bool{
	"github.com/buzzfeed/sso/internal/pkg/logging": true,
	"github.com/buzzfeed/sso/internal/zzverif":     true,
}

func newFrame(fn *ssa.Function, dest ssa.Value) *Frame {
	if len(fn.Blocks) == 0 {
		panic(engineErr("function without body: " + fn.String()))
	}
	return &Frame{Fn: fn, Block: fn.Blocks[0], Env: map[ssa.Value]Value{}, Dest: dest, Visits: make([]uint16, len(fn.Blocks))}
}

// Worker explores paths with its own solver.
type Worker struct {
	E           *Engine
	S           *Solver
	pendingUser *StructV
	curState    *State
}

// Run explores all paths of harness fn with cfg.Workers workers.
func (e *Engine) Run(fn *ssa.Function, name string) {
	e.Harness = name
	st := e.Base.Fork()
	st.Threads[0].Stack = []*Frame{newFrame(fn, nil)}
	var (
		mu      sync.Mutex
		cond    = sync.NewCond(&mu)
		work    = []*State{st}
		active  = 0
		stopped = false
	)
	nw := e.Cfg.Workers
	if nw < 1 {
		nw = 1
	}
	if os.Getenv("VERIF_SLOWLOG") != "" {
		stopMon := make(chan struct{})
		defer close(stopMon)
		go func() {
			for {
				select {
				case <-stopMon:
					return
				case <-time.After(10 * time.Second):
					mu.Lock()
					q, a := len(work), active
					mu.Unlock()
					e.mu.Lock()
					fmt.Fprintf(os.Stderr, "PROGRESS paths=%d queue=%d active=%d results=%d ends=%v\n", e.Paths, q, a, len(e.Results), e.Ends)
					e.mu.Unlock()
				}
			}
		}()
	}
	var wg sync.WaitGroup
	for i := 0; i < nw; i++ {
		wg.Add(1)
		go func() {
			defer wg.Done()
			w := &Worker{E: e, S: e.Pool.New(e.Cfg.TimeoutMs)}
			for {
				mu.Lock()
				for len(work) == 0 && active > 0 && !stopped {
					cond.Wait()
				}
				if len(work) == 0 || stopped {
					mu.Unlock()
					cond.Broadcast()
					return
				}
				s := work[len(work)-1]
				work = work[:len(work)-1]
				active++
				mu.Unlock()
				for s != nil {
					succ, end := w.runPath(s)
					s = nil
					if len(succ) == 0 {
						w.finishPath(end)
					} else {
						s = succ[len(succ)-1]
						if len(succ) > 1 {
							mu.Lock()
							work = append(work, succ[:len(succ)-1]...)
							mu.Unlock()
							cond.Broadcast()
						}
					}
					if !e.Deadline.IsZero() && time.Now().After(e.Deadline) {
						mu.Lock()
						stopped = true
						mu.Unlock()
						e.mu.Lock()
						e.Inconcl["time budget of the harness exceeded (exploration stopped)"]++
						e.mu.Unlock()
						s = nil
					}
					e.mu.Lock()
					over := e.Cfg.MaxPaths > 0 && e.Paths > e.Cfg.MaxPaths
					e.mu.Unlock()
					if over {
						mu.Lock()
						stopped = true
						mu.Unlock()
						e.mu.Lock()
						e.Inconcl["path budget exceeded"]++
						e.mu.Unlock()
						s = nil
					}
				}
				mu.Lock()
				active--
				mu.Unlock()
				cond.Broadcast()
			}
		}()
	}
	wg.Wait()
}

func (w *Worker) finishPath(end PathEnd) {
	e := w.E
	e.mu.Lock()
	defer e.mu.Unlock()
	if end.Kind == "infeasible" {
		e.Ends["infeasible"]++
		return
	}
	e.Paths++
	e.Ends[end.Kind]++
	switch end.Kind {
	case "inconclusive":
		e.Inconcl[end.Msg]++
	case "panic":
		e.PanicsAt[end.Msg]++
	}
}

// runPath executes one state until it ends (returns end) or forks (returns successors).
func (w *Worker) runPath(s *State) (succ []*State, end PathEnd) {
	w.curState = s
	defer func() {
		if r := recover(); r != nil {
			succ = nil
			switch x := r.(type) {
			case goPanic:
				end = w.onGoPanic(s, x.Msg)
			case engineErr:
				end = PathEnd{"inconclusive", string(x) + w.where(s)}
			default:
				end = PathEnd{"inconclusive", fmt.Sprintf("engine panic: %v%s\n%s", r, w.where(s), shortStack())}
			}
		}
	}()
	for {
		if s.PanicMsg != "" {
			msg := s.PanicMsg
			s.PanicMsg = ""
			return nil, w.onGoPanic(s, msg)
		}
		th := s.Threads[s.Cur]
		if len(th.Stack) == 0 {
			th.Done = true
			if s.Cur == 0 {
				return nil, w.endOfPath(s)
			}
			// a spawned thread finished: return control to the scheduler
			if fs, done := w.schedResume(s); done {
				return fs, PathEnd{"infeasible", ""}
			}
			continue
		}
		f := th.Stack[len(th.Stack)-1]
		if f.PC >= len(f.Block.Instrs) {
			panic(engineErr("fell off block"))
		}
		s.Steps++
		if s.Steps > 2000000 {
			return nil, PathEnd{"inconclusive", "step budget exceeded"}
		}
		in := f.Block.Instrs[f.PC]
		forks, done := w.step(s, f, in)
		if done {
			if len(forks) == 0 {
				return nil, PathEnd{"infeasible", ""}
			}
			return forks, PathEnd{}
		}
	}
}

func shortStack() string {
	st := string(debug.Stack())
	lines := strings.Split(st, "\n")
	var out []string
	for _, l := range lines {
		if strings.Contains(l, "/verif/engine/") {
			out = append(out, strings.TrimSpace(l))
		}
		if len(out) > 8 {
			break
		}
	}
	return strings.Join(out, " | ")
}

func (w *Worker) where(s *State) string {
	if len(s.Threads) == 0 || len(s.stack()) == 0 {
		return ""
	}
	f := s.frame()
	pos := ""
	if f.PC < len(f.Block.Instrs) {
		in := f.Block.Instrs[f.PC]
		pos = fmt.Sprintf(" at %s: %s", w.E.Prog.Fset.Position(in.Pos()), in)
	}
	var chain []string
	st := s.stack()
	for i := len(st) - 1; i >= 0 && len(chain) < 4; i-- {
		chain = append(chain, st[i].Fn.String())
	}
	return " [in " + strings.Join(chain, " <- ") + pos + "]"
}

func (w *Worker) onGoPanic(s *State, msg string) PathEnd {
	where := ""
	if len(s.stack()) > 0 {
		// innermost sso frame
		st := s.stack()
		for i := len(st) - 1; i >= 0; i-- {
			if w.E.isSSOPath(fnPkgPath(st[i].Fn)) && !strings.Contains(fnPkgPath(st[i].Fn), "zzverif") {
				where = st[i].Fn.String()
				break
			}
		}
	}
	full := msg + " in " + where
	if s.NoPanic {
		// the path is feasible (every branch was checked): a panic is a violation
		w.recordAssert(s, "panic", "false", full)
		return PathEnd{"panic", full}
	}
	// paths are kept on abstract feasibility: a panic only counts if the path really exists
	if r, _ := w.S.Check(s.Decls, s.PC, nil, nil); r == "unsat" {
		return PathEnd{"infeasible", ""}
	}
	// panic unwinding (deferred calls, recover) is not executed: without zz.NoPanic the rest of
	// such a path is unexplored, which is reported rather than dropped
	return PathEnd{"inconclusive", "go panic on a feasible path (deferred calls / recover are not executed): " + full}
}

// endOfPath discharges end-of-path obligations (overflow side conditions).
func (w *Worker) endOfPath(s *State) PathEnd {
	e := w.E
	if len(s.Overflow) > 0 {
		// lengths of byte strings are below 2^32 (no Go string or slice in these programs is larger)
		pc := s.PC
		seen := map[string]bool{}
		for _, o := range s.Overflow {
			for i := strings.Index(o, "(str.len "); i >= 0; {
				end := matchParen(o, i)
				if end < 0 {
					break
				}
				t := o[i : end+1]
				if !seen[t] {
					seen[t] = true
					pc = append(pc[:len(pc):len(pc)], "(<= "+t+" 4294967296)")
				}
				j := strings.Index(o[end:], "(str.len ")
				if j < 0 {
					break
				}
				i = end + j
			}
		}
		r, _ := w.S.Check(s.Decls, pc, []string{tOr(s.Overflow...)}, nil)
		if r != "unsat" {
			e.mu.Lock()
			e.OverflowPaths++
			e.mu.Unlock()
			return PathEnd{"inconclusive", "integer overflow possible on this path (add bounds to the harness): " + r}
		}
	}
	// reach witnesses must be genuinely satisfiable (paths are kept on abstract feasibility)
	var fresh []string
	e.mu.Lock()
	for _, r := range s.Reached {
		if e.Reached[r] == 0 {
			fresh = append(fresh, r)
		}
	}
	e.mu.Unlock()
	confirmed := true
	if len(fresh) > 0 {
		r, _ := w.S.Check(s.Decls, s.PC, nil, nil)
		confirmed = r == "sat"
		if !confirmed && os.Getenv("VERIF_SLOWLOG") != "" {
			fmt.Fprintf(os.Stderr, "REACH-UNCONFIRMED %v: %s\n", fresh, r)
		}
	}
	e.mu.Lock()
	if e.TraceOut != nil {
		tr := append([]string(nil), s.Trace...)
		if r, _ := w.S.CheckPreciseTO(s.Decls, s.PC, nil, nil, 20000); r == "unsat" {
			tr = append(tr, "$infeasible")
		}
		e.TraceOut[fmt.Sprint(len(e.TraceOut))] = tr
	}
	for _, r := range s.Reached {
		if e.Reached[r] > 0 || confirmed {
			e.Reached[r]++
		}
	}
	if len(e.Samples) < 3 && len(s.PC) > 0 {
		pc := strings.Join(s.PC, " ∧ ")
		if len(pc) > 600 {
			pc = pc[:600] + "…"
		}
		e.Samples = append(e.Samples, pc)
	}
	e.mu.Unlock()
	return PathEnd{"done", ""}
}

func (e *Engine) hitFn(fn *ssa.Function) {
	e.mu.Lock()
	n := fn.String()
	e.FnsHit[n]++
	e.FnObj[n] = fn
	e.mu.Unlock()
}
func (e *Engine) hitModel(name string) {
	e.mu.Lock()
	e.ModelsHit[name]++
	e.mu.Unlock()
}

// FunctionsEncoded lists executed functions with a hash of their source span.
func (e *Engine) FunctionsEncoded() []map[string]interface{} {
	var names []string
	for n := range e.FnsHit {
		names = append(names, n)
	}
	sort.Strings(names)
	cache := map[string][]byte{}
	var out []map[string]interface{}
	for _, n := range names {
		fn := e.FnObj[n]
		m := map[string]interface{}{"func": n, "calls": e.FnsHit[n]}
		if fn != nil && fn.Syntax() != nil {
			p0 := e.Prog.Fset.Position(fn.Syntax().Pos())
			p1 := e.Prog.Fset.Position(fn.Syntax().End())
			if strings.Contains(p0.Filename, "zz_verif") || strings.Contains(p0.Filename, "zzverif") {
				m["kind"] = "harness/model"
			}
			src, ok := cache[p0.Filename]
			if !ok {
				src, _ = os.ReadFile(p0.Filename)
				cache[p0.Filename] = src
			}
			m["file"] = fmt.Sprintf("%s:%d-%d", strings.TrimPrefix(p0.Filename, "/repo/"), p0.Line, p1.Line)
			if p0.Offset < len(src) && p1.Offset <= len(src) && src != nil {
				m["sha256"] = fmt.Sprintf("%x", sha256.Sum256(src[p0.Offset:p1.Offset]))[:16]
			}
		}
		out = append(out, m)
	}
	return out
}

var startTime = time.Now()

// cexPerLabel: how many counterexamples (from different paths) are extracted per assertion label.
var cexPerLabel = 1
