package providers

import (
	"time"

	"github.com/buzzfeed/sso/internal/pkg/sessions"
	zz "github.com/buzzfeed/sso/internal/zzverif"
	"github.com/datadog/datadog-go/statsd"
)

func init() { VerifHarnesses["VerifC16AuthWrappers"] = VerifC16AuthWrappers }

type verifInnerAuth struct {
	Execs int
}

func (p *verifInnerAuth) SetStatsdClient(*statsd.Client) {}
func (p *verifInnerAuth) Data() *ProviderData             { return &ProviderData{ProviderSlug: "idp"} }
func (p *verifInnerAuth) Redeem(string, string) (*sessions.SessionState, error) {
	p.Execs++
	zz.Yield()
	return &sessions.SessionState{Email: zz.NondetString("inner.redeemed.email")}, nil
}
func (p *verifInnerAuth) ValidateSessionState(*sessions.SessionState) bool {
	p.Execs++
	zz.Yield()
	return zz.NondetBool("inner.valid")
}
func (p *verifInnerAuth) GetSignInURL(string, string) string { return "" }
func (p *verifInnerAuth) RefreshSessionIfNeeded(s *sessions.SessionState) (bool, error) {
	p.Execs++
	zz.Yield()
	s.AccessToken = zz.NondetString("inner.newToken")
	s.RefreshDeadline = zz.NondetTime("inner.refreshDeadline")
	return true, nil
}
func (p *verifInnerAuth) ValidateGroupMembership(string, []string, string) ([]string, error) {
	p.Execs++
	zz.Yield()
	return []string{zz.NondetString("inner.group")}, nil
}
func (p *verifInnerAuth) Revoke(*sessions.SessionState) error {
	p.Execs++
	zz.Yield()
	if zz.NondetBool("inner.revoke.fails") {
		return ErrServiceUnavailable
	}
	return nil
}
func (p *verifInnerAuth) RefreshAccessToken(string) (string, time.Duration, error) {
	p.Execs++
	zz.Yield()
	if zz.NondetBool("inner.token.fails") {
		return "", 0, ErrServiceUnavailable
	}
	tok := zz.NondetString("inner.token")
	zz.Assume(tok != "")
	return tok, time.Hour, nil
}
func (p *verifInnerAuth) Stop() {}

func verifSetEq2(a, b []string) bool {
	if len(a) != len(b) {
		return false
	}
	switch len(a) {
	case 0:
		return true
	case 1:
		return a[0] == b[0]
	}
	return zz.Or(zz.And(a[0] == b[0], a[1] == b[1]), zz.And(a[0] == b[1], a[1] == b[0]))
}

// VerifC16AuthWrappers: two overlapping calls through the authenticator's real
// SingleFlightProvider with symbolic methods and subjects, under every interleaving.
func VerifC16AuthWrappers() {
	inner := &verifInnerAuth{}
	sf := NewSingleFlightProvider(inner)
	type caller struct {
		method  int
		sess    *sessions.SessionState
		groups  []string
		groups0 []string
		code    string
		ok      bool
		done    bool
		redeemed *sessions.SessionState
		err      error
		token    string
		ttl      time.Duration
		member   []string
	}
	var cs [2]*caller
	for i := 0; i < 2; i++ {
		c := &caller{method: zz.Choose("method", 6)}
		c.sess = &sessions.SessionState{AccessToken: zz.NondetString("access"), RefreshToken: zz.NondetString("refresh"), Email: zz.NondetString("email"),
			RefreshDeadline: zz.NondetTime("refreshDeadline")}
		zz.Assume(!contains(c.sess.Email, ":"))
		n := zz.Choose("ngroups", zz.Bound("c16MaxGroups", 1)+1)
		for k := 0; k < n; k++ {
			g := zz.NondetString("group")
			zz.Assume(zz.And(g != "", !contains(g, ",")))
			c.groups = append(c.groups, g)
		}
		c.groups0 = append([]string(nil), c.groups...)
		c.code = zz.NondetString("code")
		cs[i] = c
		zz.Go("caller", func() {
			switch c.method {
			case 0:
				c.ok = sf.ValidateSessionState(c.sess)
			case 1:
				c.ok, _ = sf.RefreshSessionIfNeeded(c.sess)
			case 2:
				c.member, c.err = sf.ValidateGroupMembership(c.sess.Email, c.groups, c.sess.AccessToken)
			case 3:
				c.err = sf.Revoke(c.sess)
			case 4:
				c.token, c.ttl, c.err = sf.RefreshAccessToken(c.sess.RefreshToken)
			case 5:
				c.redeemed, c.err = sf.Redeem("https://sso-auth.example/callback", c.code)
			}
			c.done = true
		})
	}
	before := [2]sessions.SessionState{*cs[0].sess, *cs[1].sess}
	if zz.RunSchedule(zz.Bound("c16WrapperSteps", 14)) != "done" {
		zz.Reach("budget")
		return
	}
	if inner.Execs != 1 {
		zz.Reach("not-merged")
		zz.Assert(inner.Execs == 2, "C16.each unmerged call executes once")
		return
	}
	zz.Reach("merged")
	a, b := cs[0], cs[1]
	zz.Assert(a.method == b.method, "C16.calls to different endpoints are never merged")
	if a.method != b.method {
		return
	}
	switch a.method {
	case 0:
		zz.Assert(before[0].AccessToken == before[1].AccessToken, "C16.validations of different access tokens are never merged")
	case 1, 4:
		zz.Assert(before[0].RefreshToken == before[1].RefreshToken, "C16.refreshes of different refresh tokens are never merged")
	case 2:
		zz.Assert(zz.And(before[0].Email == before[1].Email, verifSetEq2(a.groups0, b.groups0)), "C16.group lookups for a different user or group set are never merged")
	case 3:
		zz.Assert(before[0].AccessToken == before[1].AccessToken, "C16.revocations of different access tokens are never merged")
	case 5:
		zz.Assert(a.code == b.code, "C16.redemptions of different codes are never merged")
	}
	// every caller whose call was merged receives the answer of the one execution
	zz.Assert((a.err == nil) == (b.err == nil), "C16.merged callers receive the same error or success (auth wrapper)")
	switch a.method {
	case 0:
		zz.Assert(a.ok == b.ok, "C16.merged validations receive the same verdict (auth wrapper)")
	case 2:
		zz.Assert(verifSetEq2(a.member, b.member), "C16.merged group lookups receive the same groups (auth wrapper)")
	case 4:
		zz.Assert(zz.And(a.token == b.token, a.ttl == b.ttl, zz.Implies(a.err == nil, a.token != "")), "C16.merged token refreshes receive the same token and lifetime (auth wrapper)")
	case 5:
		zz.Assert(a.redeemed == b.redeemed, "C16.merged redemptions receive the same session (auth wrapper)")
	}
	if a.method == 1 && a.ok && b.ok {
		zz.Assert(zz.And(a.sess.AccessToken == b.sess.AccessToken, a.sess.RefreshDeadline.Equal(b.sess.RefreshDeadline)),
			"C16.follower of a merged RefreshSessionIfNeeded gets the same session updates (auth wrapper)")
	}
}
