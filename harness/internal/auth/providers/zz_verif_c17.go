package providers

import (
	"time"

	"github.com/buzzfeed/sso/internal/pkg/groups"
	"github.com/buzzfeed/sso/internal/pkg/sessions"
	zz "github.com/buzzfeed/sso/internal/zzverif"
)

func init() {
	VerifHarnesses["VerifC17GroupCache"] = VerifC17GroupCache
	VerifHarnesses["VerifC17Membership"] = VerifC17Membership
	VerifHarnesses["VerifC17PopulateMembers"] = VerifC17PopulateMembers
}

// verifDirectory is the provider behind the Okta-path GroupCache: every question gets a fresh
// (arbitrary) answer or an error.
type verifDirectory struct {
	verifInnerAuth
	Asked   int
	Answers [][]string
	Errs    []error
}

func (d *verifDirectory) ValidateGroupMembership(email string, gs []string, token string) ([]string, error) {
	d.Asked++
	if zz.NondetBool("directory.fails") {
		d.Answers = append(d.Answers, nil)
		d.Errs = append(d.Errs, ErrServiceUnavailable)
		return nil, ErrServiceUnavailable
	}
	var out []string
	n := zz.Choose("directory.answer.n", 2)
	for i := 0; i < n; i++ {
		out = append(out, zz.NondetString("directory.answer.group"))
	}
	d.Answers = append(d.Answers, out)
	d.Errs = append(d.Errs, nil)
	return out, nil
}

// verifGroupList: no group, one arbitrary group, or two of three concrete groups in either order
// (so "same set in any order" and "different set" are both covered with the real sort + join).
func verifGroupList(label string) []string {
	switch zz.Choose(label+".shape", 5) {
	case 1:
		g := zz.NondetString(label)
		zz.Assume(zz.And(g != "", !contains(g, ",")))
		return []string{g}
	case 2:
		return []string{"group-a", "group-b"}
	case 3:
		return []string{"group-b", "group-a"}
	case 4:
		return []string{"group-a", "group-c"}
	}
	return nil
}

func verifSameStrings(a, b []string) bool {
	if len(a) != len(b) {
		return false
	}
	eq := true
	for i := range a {
		eq = zz.And(eq, a[i] == b[i])
	}
	return eq
}

// VerifC17GroupCache: two questions in a row through the real GroupCache + LocalCache.
func VerifC17GroupCache() {
	dir := &verifDirectory{}
	gc := NewGroupCache(dir, 0, nil, nil) // ttl 0: the purge timer is outside this harness
	e1, e2 := zz.NondetString("email1"), zz.NondetString("email2")
	g1, g2 := verifGroupList("groups1"), verifGroupList("groups2")
	g1o, g2o := append([]string(nil), g1...), append([]string(nil), g2...)
	a1, err1 := gc.ValidateGroupMembership(e1, g1, "t1")
	a2, err2 := gc.ValidateGroupMembership(e2, g2, "t2")
	zz.Assert(dir.Asked >= 1, "C17.the first question always goes to the directory")
	zz.Assert(zz.And((err1 == nil) == (dir.Errs[0] == nil), zz.Implies(err1 == nil, verifSameStrings(a1, dir.Answers[0]))), "C17.a fresh answer is what the directory said")
	fromCache := dir.Asked == 1
	if fromCache {
		zz.Reach("answered-from-cache")
		zz.Assert(err1 == nil, "C17.errors are not cached")
		zz.Assert(zz.And(e1 == e2, verifSetEq2(g1o, g2o)), "C17.a cached answer is served only for the same user and the same set of groups")
		zz.Assert(err2 == nil && verifSameStrings(a2, dir.Answers[0]), "C17.the cached answer is the one the directory gave for that question")
	} else {
		zz.Reach("asked-again")
		zz.Assert(dir.Asked == 2, "C17.each uncached question is asked once")
		zz.Assert(zz.And((err2 == nil) == (dir.Errs[1] == nil), zz.Implies(err2 == nil, verifSameStrings(a2, dir.Answers[1]))), "C17.a fresh answer is what the directory said (second question)")
		// the same question again must have been answered from the cache if the first succeeded
		zz.Assert(zz.Implies(zz.And(err1 == nil, e1 == e2, verifSameStrings(g1o, g2o)), false), "C17.a repeated identical question is served from the cache")
	}
}

// ---- Google / Cognito membership over the member-set cache ----

type verifMemberCache struct {
	cached  map[string]bool
	member  map[string]bool
	user    string
	loops   int
}

func (c *verifMemberCache) Get(g string) (groups.MemberSet, bool) {
	if !c.cached[g] {
		return nil, false
	}
	if c.member[g] {
		return groups.MemberSet{c.user: {}}, true
	}
	return groups.MemberSet{}, true
}
func (c *verifMemberCache) Update(string) bool      { return true }
func (c *verifMemberCache) RefreshLoop(string) bool { c.loops++; return zz.NondetBool("refreshloop.started") }
func (c *verifMemberCache) Stop()                   {}

type verifAdmin struct {
	dirMember map[string]bool
	groups    []string
	asked     int
	fail      bool
}

func (a *verifAdmin) answer() []string {
	var out []string
	for _, g := range a.groups {
		if a.dirMember[g] {
			out = append(out, g)
		}
	}
	return out
}
func (a *verifAdmin) ListMemberships(string, int) ([]string, error) { return nil, nil }
func (a *verifAdmin) CheckMemberships(gs []string, user string) ([]string, error) {
	a.asked++
	if a.fail {
		return nil, ErrServiceUnavailable
	}
	return a.answer(), nil
}

type verifCognitoAdmin struct{ *verifAdmin }

func (a verifCognitoAdmin) ListMemberships(string) ([]string, error) { return nil, nil }
func (a verifCognitoAdmin) CheckMemberships(user string) ([]string, error) {
	a.asked++
	if a.fail {
		return nil, ErrServiceUnavailable
	}
	return append(a.answer(), "some-other-group"), nil
}
func (a verifCognitoAdmin) GlobalSignOut(*sessions.SessionState) error { return nil }

// VerifC17Membership: the real Google / Cognito ValidateGroupMembership over two groups, each
// cached or not, with the cached list and the directory possibly disagreeing.
func VerifC17Membership() {
	user := zz.NondetString("user")
	zz.Assume(user != "")
	gs := []string{"group-a", "group-b"}
	cache := &verifMemberCache{cached: map[string]bool{}, member: map[string]bool{}, user: user}
	admin := &verifAdmin{dirMember: map[string]bool{}, groups: gs, fail: zz.NondetBool("directory.fails")}
	for _, g := range gs {
		cache.cached[g] = zz.NondetBool("cached")
		cache.member[g] = zz.NondetBool("cached.says.member")
		admin.dirMember[g] = zz.NondetBool("directory.says.member")
	}
	cognito := zz.NondetBool("cognito")
	var got []string
	var err error
	name := "google"
	if cognito {
		name = "cognito"
		idp := &verifIdP{}
		VerifSetTransport(idp)
		p := &AmazonCognitoProvider{ProviderData: verifProviderData(), AdminService: verifCognitoAdmin{admin}, GroupsCache: cache}
		got, err = p.ValidateGroupMembership("ignored@example.com", []string{"group-a", "group-b"}, "token")
		// the username comes from userinfo; make it the cache's user
		if err == nil {
			zz.Assume(idp.UserinfoBody.Username == user)
		}
		if idp.Userinfo.Status != 200 || idp.Userinfo.NetErr || idp.Userinfo.BadJSON || idp.UserinfoBody.Username == "" {
			zz.Assert(err != nil, "C17.cognito: no answer without a username")
			return
		}
	} else {
		p := &GoogleProvider{ProviderData: verifProviderData(), AdminService: admin, GroupsCache: cache}
		got, err = p.ValidateGroupMembership(user, []string{"group-a", "group-b"}, "token")
	}
	allCached := cache.cached["group-a"] && cache.cached["group-b"]
	var want []string
	if allCached {
		zz.Reach(name + "-all-cached")
		for _, g := range gs {
			if cache.member[g] {
				want = append(want, g)
			}
		}
		zz.Assert(admin.asked == 0, "C17."+name+": fully cached questions do not ask the directory")
		zz.Assert(err == nil && verifSameStrings(got, want), "C17."+name+": fully cached answer is exactly the cached membership")
		return
	}
	zz.Reach(name + "-partly-cached")
	zz.Assert(admin.asked == 1, "C17."+name+": a partly cached question asks the directory")
	zz.Assert(cache.loops >= 1, "C17."+name+": a refresh loop is requested for an uncached group")
	if admin.fail {
		zz.Assert(err != nil, "C17."+name+": a directory failure is reported")
		return
	}
	want = admin.answer()
	zz.Assert(err == nil && verifSameStrings(got, want), "C17."+name+": a partly cached question is answered with exactly what the directory says")
}

// ---- the fill function the authenticator really installs (options.go: NewFillCache(p.PopulateMembers, ...)) ----

type verifListAdmin struct {
	outcome int // 0 = a member list, 1 = directory error, 2 = group not found
	serial  int
}

func (a *verifListAdmin) list() ([]string, error) {
	a.serial++
	switch a.outcome {
	case 1:
		return nil, ErrServiceUnavailable
	case 2:
		return nil, groups.ErrGroupNotFound
	}
	return []string{"member-" + string(rune('0'+a.serial)) + "@example.com"}, nil
}
func (a *verifListAdmin) ListMemberships(string, int) ([]string, error)      { return a.list() }
func (a *verifListAdmin) CheckMemberships([]string, string) ([]string, error) { return nil, nil }

type verifCognitoListAdmin struct{ *verifListAdmin }

func (a verifCognitoListAdmin) ListMemberships(string) ([]string, error)   { return a.list() }
func (a verifCognitoListAdmin) CheckMemberships(string) ([]string, error)  { return nil, nil }
func (a verifCognitoListAdmin) GlobalSignOut(*sessions.SessionState) error { return nil }

// VerifC17PopulateMembers: the real FillCache filled by the real PopulateMembers of the Google /
// Cognito provider (the pairing options.go sets up), the admin service scripted at its interface:
// a first successful fill, then a second fill whose directory call returns a list, fails, or
// reports the group missing.
func VerifC17PopulateMembers() {
	admin := &verifListAdmin{}
	var fill groups.FillFunc
	if zz.NondetBool("cognito") {
		p := &AmazonCognitoProvider{ProviderData: verifProviderData(), AdminService: verifCognitoListAdmin{admin}}
		fill = p.PopulateMembers
	} else {
		p := &GoogleProvider{ProviderData: verifProviderData(), AdminService: admin}
		fill = p.PopulateMembers
	}
	cache := groups.NewFillCache(fill, time.Minute)
	zz.Assert(cache.Update("group-a"), "C17.a successful first fill reports an update")
	ms, found := cache.Get("group-a")
	_, has := ms["member-1@example.com"]
	zz.Assert(found && has && len(ms) == 1, "C17.the first fill caches the directory's member list")
	admin.outcome = zz.Choose("second.fill.outcome", 3)
	updated := cache.Update("group-a")
	ms, found = cache.Get("group-a")
	switch admin.outcome {
	case 0:
		zz.Reach("second-fill-members")
		_, has = ms["member-2@example.com"]
		zz.Assert(updated && found && has && len(ms) == 1, "C17.a successful fill replaces the member list with the latest one (provider fill function)")
	case 1:
		zz.Reach("second-fill-error")
		_, has = ms["member-1@example.com"]
		zz.Assert(!updated && found && has && len(ms) == 1, "C17.a failed fill keeps the previous list (provider fill function)")
	case 2:
		zz.Reach("second-fill-not-found")
		zz.Assert(!updated && !found, "C17.a group the directory reports missing is dropped (provider fill function)")
	}
}
