package providers

// C10 (and the frame part of C09): the REAL Google / Okta / Cognito provider code against a
// scripted identity provider behind the package's HTTP client.

import (
	"encoding/base64"
	"net/http"
	"net/url"
	"time"

	"github.com/buzzfeed/sso/internal/pkg/sessions"
	zz "github.com/buzzfeed/sso/internal/zzverif"
)

var VerifHarnesses = map[string]func(){
	"VerifC10Google":           VerifC10Google,
	"VerifC10Okta":             VerifC10Okta,
	"VerifC10Cognito":          VerifC10Cognito,
	"VerifC09ProviderRefresh":  VerifC09ProviderRefresh,
}

// VerifSetTransport points the package's HTTP client at a scripted identity provider (overlay only).
func VerifSetTransport(rt http.RoundTripper) { httpClient = &http.Client{Transport: rt} }

type verifIdPAnswer struct {
	Called  int
	NetErr  bool
	Status  int
	BadJSON bool
	Mistyped bool
}

type verifTokenBody struct {
	AccessToken  string `json:"access_token"`
	RefreshToken string `json:"refresh_token"`
	ExpiresIn    int64  `json:"expires_in"`
	IDToken      string `json:"id_token"`
}

type verifClaims struct {
	Email         string `json:"email"`
	EmailVerified *bool  `json:"email_verified,omitempty"` // nil: the claim is absent
}

type verifUserinfo struct {
	Email         string   `json:"email"`
	EmailVerified bool     `json:"email_verified"`
	Groups        []string `json:"groups"`
	Username      string   `json:"username"`
}

type verifErrBody struct {
	Error            string `json:"error"`
	ErrorDescription string `json:"error_description"`
}

// verifIdP is the scripted identity provider: /token and /userinfo answer with arbitrary
// transport errors, statuses and bodies.
type verifIdP struct {
	Token, Userinfo verifIdPAnswer
	TokenBody       verifTokenBody
	Claims          verifClaims
	ClaimsBadJSON   bool
	IDTokenKind     int
	UserinfoBody    verifUserinfo
	mistyped        bool
}

func verifStatus(label string) int {
	st := zz.NondetInt(label)
	zz.Assume(st >= 100)
	zz.Assume(st <= 599)
	return st
}

func (i *verifIdP) answer(name string, a *verifIdPAnswer, body func(bad bool) []byte) (*http.Response, error) {
	a.Called++
	a.NetErr = zz.NondetBool(name + ".neterr")
	if a.NetErr {
		return nil, errVerifNet
	}
	a.Status = verifStatus(name + ".status")
	if a.Status != 200 && zz.NondetBool(name+".error.body.sent") {
		eb := &verifErrBody{}
		zz.Havoc(name+".error.body", eb)
		return zz.Response(a.Status, zz.JSONBody(eb, zz.NondetBool(name+".error.badjson"))), nil
	}
	// any status may come with a well-formed success-shaped body (a peer is not obliged to be consistent)
	a.BadJSON = zz.NondetBool(name + ".badjson")
	// a bad body is cut short, or is well-formed JSON with one member of the wrong type
	a.Mistyped = a.BadJSON && zz.NondetBool(name+".badjson.mistyped")
	i.mistyped = a.Mistyped
	return zz.Response(a.Status, body(a.BadJSON)), nil
}

type verifNetErr struct{}

func (verifNetErr) Error() string { return "connection refused" }

var errVerifNet error = verifNetErr{}

func (i *verifIdP) RoundTrip(req *http.Request) (*http.Response, error) {
	switch req.URL.Path {
	case "/token":
		return i.answer("token", &i.Token, func(bad bool) []byte {
			zz.Havoc("token.body", &i.TokenBody)
			i.TokenBody.IDToken = i.idToken()
			if i.mistyped {
				return zz.JSONBodyMistyped(&i.TokenBody)
			}
			return zz.JSONBody(&i.TokenBody, bad)
		})
	case "/userinfo":
		return i.answer("userinfo", &i.Userinfo, func(bad bool) []byte {
			zz.Havoc("userinfo.body", &i.UserinfoBody)
			if i.mistyped {
				return zz.JSONBodyMistyped(&i.UserinfoBody)
			}
			return zz.JSONBody(&i.UserinfoBody, bad)
		})
	}
	return zz.Response(404, nil), nil
}

// idToken: a JWT-shaped token with 1..4 dot-separated segments whose second segment is the
// base64url of the claims JSON (well-formed or not), or not base64 at all.
func (i *verifIdP) idToken() string {
	i.IDTokenKind = zz.Choose("idtoken.kind", 5)
	seg := func(l string) string {
		s := zz.NondetString(l)
		zz.Assume(!contains(s, "."))
		return s
	}
	i.Claims.Email = zz.NondetString("idtoken.claims.email")
	switch zz.Choose("idtoken.claims.email_verified", 3) {
	case 1:
		v := true
		i.Claims.EmailVerified = &v
	case 2:
		v := false
		i.Claims.EmailVerified = &v
	}
	i.ClaimsBadJSON = zz.NondetBool("idtoken.claims.badjson")
	payload := base64.URLEncoding.EncodeToString(zz.JSONBody(&i.Claims, i.ClaimsBadJSON))
	zz.Assume(!contains(payload, "."))
	switch i.IDTokenKind {
	case 0: // no dot at all
		return seg("idtoken.only")
	case 1: // header.payload
		return seg("idtoken.h") + "." + payload
	case 2: // header.payload.signature
		return seg("idtoken.h") + "." + payload + "." + seg("idtoken.s")
	case 3: // second segment is not base64
		bad := seg("idtoken.notb64")
		_, err := base64.URLEncoding.DecodeString(bad)
		zz.Assume(err != nil)
		zz.Assume(len(bad)%4 == 0)
		return seg("idtoken.h") + "." + bad + "." + seg("idtoken.s")
	}
	return seg("idtoken.h") + "." + payload + "." + seg("idtoken.s") + "." + seg("idtoken.x")
}

func verifProviderData() *ProviderData {
	u := func(p string) *url.URL { return &url.URL{Scheme: "https", Host: "idp.example", Path: p} }
	return &ProviderData{ProviderName: "scripted", ProviderSlug: "idp", ClientID: "cid", ClientSecret: "csecret", Scope: "openid",
		RedeemURL: u("/token"), ProfileURL: u("/userinfo"), ValidateURL: u("/tokeninfo"), RevokeURL: u("/revoke"), SignInURL: u("/authorize"),
		SessionLifetimeTTL: 720 * time.Hour}
}

func verifRedeemCommon(name string, redeem func(string, string) (*sessions.SessionState, error), idp *verifIdP, needUserinfo, needVerifiedUserinfo, needClaims bool) {
	zz.NoPanic()
	code := zz.NondetString("code")
	t0 := time.Now()
	s, err := redeem("https://sso-auth.example/callback", code)
	tEnd := time.Now()
	if s == nil {
		zz.Reach(name + "-refused")
		zz.Assert(err != nil, "C10.no session always comes with an error")
		return
	}
	zz.Reach(name + "-session")
	zz.Assert(err == nil, "C10.session comes without error")
	zz.Assert(code != "", "C10.session only for a non-empty code")
	tk := idp.Token
	zz.Assert(zz.And(tk.Called == 1, !tk.NetErr, tk.Status == 200, !tk.BadJSON), "C10.session only if the token endpoint answered 200 with a decodable body")
	zz.Assert(s.Email != "", "C10.session only with a non-empty email")
	zz.Assert(zz.And(s.AccessToken == idp.TokenBody.AccessToken, s.RefreshToken == idp.TokenBody.RefreshToken), "C10.session holds the tokens the provider returned")
	zz.Assert(zz.And(!s.LifetimeDeadline.Before(t0.Add(720*time.Hour-time.Second)), !s.LifetimeDeadline.After(tEnd.Add(720*time.Hour))), "C10.lifetime is stamped once at login from the lifetime TTL")
	if needClaims {
		zz.Assert(zz.And(idp.IDTokenKind != 0, idp.IDTokenKind != 3, !idp.ClaimsBadJSON), "C10.google: session only if the id_token has a decodable claims segment")
		verified := idp.Claims.EmailVerified != nil && *idp.Claims.EmailVerified
		zz.Assert(zz.And(s.Email == idp.Claims.Email, verified), "C10.google: session only for the email the id_token carries, marked verified")
	}
	if needUserinfo {
		ui := idp.Userinfo
		zz.Assert(zz.And(ui.Called == 1, !ui.NetErr, ui.Status == 200, !ui.BadJSON), "C10.session only if userinfo answered 200 with a decodable body")
		zz.Assert(s.Email == idp.UserinfoBody.Email, "C10.session only for the email userinfo returned")
		if needVerifiedUserinfo {
			zz.Assert(idp.UserinfoBody.EmailVerified, "C10.okta: session only for an email marked verified")
		}
	}
}

func VerifC10Google() {
	idp := &verifIdP{}
	VerifSetTransport(idp)
	p := &GoogleProvider{ProviderData: verifProviderData()}
	verifRedeemCommon("google", p.Redeem, idp, false, false, true)
}

func VerifC10Okta() {
	idp := &verifIdP{}
	VerifSetTransport(idp)
	p := &OktaProvider{ProviderData: verifProviderData()}
	verifRedeemCommon("okta", p.Redeem, idp, true, true, false)
}

func VerifC10Cognito() {
	idp := &verifIdP{}
	VerifSetTransport(idp)
	p := &AmazonCognitoProvider{ProviderData: verifProviderData()}
	verifRedeemCommon("cognito", p.Redeem, idp, true, false, false)
}

// VerifC09ProviderRefresh: RefreshSessionIfNeeded of each real provider touches only the
// access token and the refresh deadline (never the lifetime, the identity or the refresh token).
func VerifC09ProviderRefresh() {
	idp := &verifIdP{}
	VerifSetTransport(idp)
	pd := verifProviderData()
	s := &sessions.SessionState{}
	zz.Havoc("sess", s)
	s0 := *s
	var ok bool
	var err error
	name := ""
	switch zz.Choose("provider", 3) {
	case 0:
		name = "google"
		ok, err = (&GoogleProvider{ProviderData: pd}).RefreshSessionIfNeeded(s)
	case 1:
		name = "okta"
		ok, err = (&OktaProvider{ProviderData: pd}).RefreshSessionIfNeeded(s)
	case 2:
		name = "cognito"
		ok, err = (&AmazonCognitoProvider{ProviderData: pd}).RefreshSessionIfNeeded(s)
	}
	zz.ReachIf(ok, name+"-refreshed")
	zz.Assert(zz.And(s.LifetimeDeadline.Equal(s0.LifetimeDeadline), s.Email == s0.Email, s.RefreshToken == s0.RefreshToken, s.User == s0.User, s.ValidDeadline.Equal(s0.ValidDeadline)),
		"C09."+name+": refresh never moves the lifetime or changes identity")
	zz.Assert(zz.Implies(zz.Or(!ok, err != nil), zz.And(s.AccessToken == s0.AccessToken, s.RefreshDeadline.Equal(s0.RefreshDeadline))), "C09."+name+": a refresh that did not happen changes nothing")
	zz.Assert(zz.Implies(ok, zz.And(err == nil, idp.Token.Called == 1, idp.Token.Status == 200, !idp.Token.BadJSON, s.AccessToken == idp.TokenBody.AccessToken)), "C09."+name+": refreshed means the provider issued the new token")
}

func init() { VerifHarnesses["VerifC19Revoke"] = VerifC19Revoke }

type verifRevokeIdP struct {
	Called   int
	Status   int
	NetErr   bool
	ErrBody  verifErrBody
	BadJSON  bool
	Path     string
	Query    string
	FormBody string
}

func (i *verifRevokeIdP) RoundTrip(req *http.Request) (*http.Response, error) {
	i.Called++
	i.Path, i.Query = req.URL.Path, req.URL.RawQuery
	if b, ok := req.Body.(*zz.Body); ok && b != nil {
		i.FormBody = string(b.Data)
	}
	i.NetErr = zz.NondetBool("revoke.neterr")
	if i.NetErr {
		return nil, errVerifNet
	}
	i.Status = verifStatus("revoke.status")
	zz.Havoc("revoke.error.body", &i.ErrBody)
	i.BadJSON = zz.NondetBool("revoke.error.badjson")
	return zz.Response(i.Status, zz.JSONBody(&i.ErrBody, i.BadJSON)), nil
}

// VerifC19Revoke: the real Google/Okta Revoke: which token is revoked, and which answers count
// as "signed out" (200, or 400 "already revoked"); everything else is an error.
func VerifC19Revoke() {
	idp := &verifRevokeIdP{}
	VerifSetTransport(idp)
	pd := verifProviderData()
	s := &sessions.SessionState{AccessToken: zz.NondetString("access"), RefreshToken: zz.NondetString("refresh"), Email: zz.NondetString("email")}
	var err error
	google := zz.NondetBool("google")
	if google {
		err = (&GoogleProvider{ProviderData: pd}).Revoke(s)
	} else {
		err = (&OktaProvider{ProviderData: pd}).Revoke(s)
	}
	zz.Assert(idp.Called == 1 && idp.Path == "/revoke", "C19.revoke calls the identity provider's revoke endpoint once")
	if google {
		want := url.Values{}
		want.Set("token", s.AccessToken)
		zz.Assert(idp.Query == want.Encode(), "C19.google revokes the session's access token")
		already := zz.And(idp.Status == 400, !idp.BadJSON, idp.ErrBody.ErrorDescription == "Token expired or revoked")
		zz.ReachIf(zz.And(err == nil, idp.Status == 200), "google-revoked")
		zz.ReachIf(zz.And(err == nil, already), "google-already-revoked")
		zz.Assert((err == nil) == zz.And(!idp.NetErr, zz.Or(idp.Status == 200, already)), "C19.google: signed out iff the provider answered 200 or already-revoked")
	} else {
		want := url.Values{}
		want.Add("token", s.RefreshToken)
		want.Add("token_type_hint", "refresh_token")
		want.Add("client_id", pd.ClientID)
		want.Add("client_secret", pd.ClientSecret)
		zz.Assert(idp.FormBody == want.Encode(), "C19.okta revokes the session's refresh token (which invalidates the access token too)")
		zz.ReachIf(zz.And(err == nil, idp.Status == 200), "okta-revoked")
		zz.Assert(zz.Implies(err == nil, zz.And(!idp.NetErr, zz.Or(idp.Status == 200, idp.Status == 400))), "C19.okta: signed out only if the provider answered 200 or 400 already-invalid")
		zz.Assert(zz.Implies(zz.And(!idp.NetErr, idp.Status == 200), err == nil), "C19.okta: a 200 answer signs out")
	}
}
