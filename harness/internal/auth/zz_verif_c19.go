package auth

import (
	"net/url"
	"strconv"
	"time"

	"github.com/buzzfeed/sso/internal/pkg/validators"
	zz "github.com/buzzfeed/sso/internal/zzverif"
)

func init() { VerifHarnesses["VerifC19AuthSignOut"] = VerifC19AuthSignOut }

// VerifC19AuthSignOut: /sign_out at the authenticator with a genuinely signed in-domain return
// address, GET or POST, any cookie state, any identity-provider revoke outcome.
func VerifC19AuthSignOut() {
	zz.ClockMaxAdvance(time.Second)
	env := verifNewAuth([]validators.Validator{validators.NewEmailDomainValidator([]string{"*"})}, []string{".sso.test"})
	uri := zz.MakeURL("https", "app.sso.test", "/", "")
	ts := time.Now().Unix()
	method := []string{"GET", "POST"}[zz.Choose("method", 2)]
	req := zz.NewRequest(method, verifAuthHost, "/sign_out", "")
	q := url.Values{}
	q.Set("redirect_uri", uri)
	q.Set("sig", verifSign(verifClientSecret, uri, ts))
	q.Set("ts", strconv.FormatInt(ts, 10))
	zz.SetForm(req, q, nil, false)
	kind := zz.Choose("cookie.kind", 3)
	switch kind {
	case 1:
		verifSetCookie(req, verifAuthCookie, env.Cookies.Preload("cookie", verifAuthSession("sess")))
	case 2:
		forged := zz.NondetString("cookie.forged")
		zz.Assume(verifCookieOK(forged))
		verifSetCookie(req, verifAuthCookie, forged)
	}
	rec := zz.NewRecorder()
	env.A.ServeMux.ServeHTTP(rec, req)
	p := env.Provider
	cleared := false
	if c := verifAuthSessionCookie(rec); c != nil {
		cleared = c.Value == ""
	}
	st := rec.Status()
	if method == "GET" {
		zz.Reach("get")
		zz.Assert(p.RevokeCalls == 0 && !cleared, "C19.GET never revokes or clears")
	}
	if kind == 1 && method == "POST" {
		zz.Reach("post-with-session")
		zz.Assert(p.RevokeCalls == 1, "C19.POST with a session revokes the token at the identity provider")
		revoked := p.RevokeErr == nil
		zz.ReachIf(revoked, "revoked")
		zz.ReachIf(!revoked, "revoke-failed")
		zz.Assert(zz.Implies(revoked, zz.And(cleared, st == 302, rec.H.Get("Location") == uri)), "C19.after a successful revoke the cookie is cleared and the browser returned")
		zz.Assert(zz.Implies(!revoked, zz.And(!cleared, st == 500, rec.H.Get("Location") == "")), "C19.a failed revoke keeps the user signed in and says so")
		zz.Assert(zz.Implies(cleared, revoked), "C19.the authenticator cookie is cleared only after the revoke succeeded")
	}
	if kind != 1 {
		zz.Assert(p.RevokeCalls == 0, "C19.nothing to revoke without an authentic session")
	}
}
