package auth

import (
	"time"

	zz "github.com/buzzfeed/sso/internal/zzverif"
)

func init() { VerifHarnesses["VerifC08ConfigGate"] = VerifC08ConfigGate }

// VerifC08ConfigGate: the credentials the token endpoints compare against come from the
// start-up configuration. Starting from the REAL DefaultAuthConfig(), with every other
// section set to valid values and the proxy client's id / secret set by the environment to
// arbitrary strings or not at all: a configuration that Validate() accepts always gives the
// authenticator a non-empty proxy client id and secret (what NewAuthenticator reads), so
// "no credentials configured" can never mean "no credentials needed".
func VerifC08ConfigGate() {
	c := DefaultAuthConfig()
	c.ServerConfig.Host = "sso-auth.example"
	c.SessionConfig.CookieConfig.Secret = "zaPX2fYMyegfOwwMEaMiphwrjgxz0pxoTbxvQiK9zBY="
	c.SessionConfig.Key = "CrYro5Kp6CO2aBbVGoHgnh2/YQaz9cqqRYNbtTSUBDs="
	c.MetricsConfig.StatsdConfig.Host, c.MetricsConfig.StatsdConfig.Port = "localhost", 8124
	c.ProviderConfigs = map[string]ProviderConfig{"foo": {ProviderType: "test", ProviderSlug: "foo", ClientConfig: ClientConfig{ID: "foo-client-id", Secret: "foo-client-secret"}}}
	c.AuthorizeConfig = AuthorizeConfig{ProxyConfig: ProxyConfig{Domains: []string{"sso.test"}}, EmailConfig: EmailConfig{Domains: []string{"example.com"}}}
	switch zz.Choose("env.client.proxy", 3) {
	case 1: // CLIENT_PROXY_ID / CLIENT_PROXY_SECRET set (possibly to empty strings)
		c.ClientConfigs["proxy"] = ClientConfig{ID: zz.NondetString("client.proxy.id"), Secret: zz.NondetString("client.proxy.secret")}
	case 2: // only the id is set
		c.ClientConfigs["proxy"] = ClientConfig{ID: zz.NondetString("client.proxy.id")}
	}
	err := c.Validate()
	if err != nil {
		zz.Reach("refused")
		return
	}
	zz.Reach("accepted")
	zz.Assert(zz.And(c.ClientConfigs["proxy"].ID != "", c.ClientConfigs["proxy"].Secret != ""),
		"C08.a configuration accepted at start-up gives the authenticator a non-empty proxy client id and secret")
	_ = time.Second
}
