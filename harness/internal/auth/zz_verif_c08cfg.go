package auth

import (
	"time"

	"github.com/buzzfeed/sso/internal/pkg/sessions"

	zz "github.com/buzzfeed/sso/internal/zzverif"
)

func init() { VerifHarnesses["VerifC08ConfigGate"] = VerifC08ConfigGate }

// VerifC08ConfigGate: the credentials the token endpoints compare against come from the
// start-up configuration. Starting from the REAL DefaultAuthConfig(), with every other
// section set to valid values and the proxy client's id / secret set by the environment to
// arbitrary strings or not at all: a configuration that Validate() accepts always gives the
// authenticator a non-empty proxy client id and secret (what NewAuthenticator reads), so
// "no credentials configured" can never mean "no credentials needed".
func VerifC08ConfigGate() {
	c := DefaultAuthConfig()
	c.ServerConfig.Host = "sso-auth.example"
	c.SessionConfig.CookieConfig.Secret = "zaPX2fYMyegfOwwMEaMiphwrjgxz0pxoTbxvQiK9zBY="
	c.SessionConfig.Key = "CrYro5Kp6CO2aBbVGoHgnh2/YQaz9cqqRYNbtTSUBDs="
	c.MetricsConfig.StatsdConfig.Host, c.MetricsConfig.StatsdConfig.Port = "localhost", 8124
	c.ProviderConfigs = map[string]ProviderConfig{"foo": {ProviderType: "test", ProviderSlug: "foo", ClientConfig: ClientConfig{ID: "foo-client-id", Secret: "foo-client-secret"}}}
	c.AuthorizeConfig = AuthorizeConfig{ProxyConfig: ProxyConfig{Domains: []string{"sso.test"}}, EmailConfig: EmailConfig{Domains: []string{"example.com"}}}
	switch zz.Choose("env.client.proxy", 3) {
	case 1: // CLIENT_PROXY_ID / CLIENT_PROXY_SECRET set (possibly to empty strings)
		c.ClientConfigs["proxy"] = ClientConfig{ID: zz.NondetString("client.proxy.id"), Secret: zz.NondetString("client.proxy.secret")}
	case 2: // only the id is set
		c.ClientConfigs["proxy"] = ClientConfig{ID: zz.NondetString("client.proxy.id")}
	}
	err := c.Validate()
	if err != nil {
		zz.Reach("refused")
		return
	}
	zz.Reach("accepted")
	zz.Assert(zz.And(c.ClientConfigs["proxy"].ID != "", c.ClientConfigs["proxy"].Secret != ""),
		"C08.a configuration accepted at start-up gives the authenticator a non-empty proxy client id and secret")
	_ = time.Second
}

func init() { VerifHarnesses["VerifC08CodeKeyWiring"] = VerifC08CodeKeyWiring }

// VerifC08CodeKeyWiring: the authenticator wired by the REAL SetCookieStore opens authorization
// codes only under the session key: a value sealed under the COOKIE secret (e.g. a user's own
// session cookie) or under any other key is not a code, and a code is not a cookie.
func VerifC08CodeKeyWiring() {
	// two different 32-byte keys, as `openssl rand -base64 32` prints them
	sessionKey, cookieSecret := "CrYro5Kp6CO2aBbVGoHgnh2/YQaz9cqqRYNbtTSUBDs=", "zaPX2fYMyegfOwwMEaMiphwrjgxz0pxoTbxvQiK9zBY="
	a := &Authenticator{}
	err := SetCookieStore(SessionConfig{Key: sessionKey, CookieConfig: CookieConfig{Name: "_sso_auth", Secret: cookieSecret, Expire: time.Hour, Secure: true, HTTPOnly: true}}, "idp")(a)
	if err != nil {
		panic(err)
	}
	sess := verifAuthSession("sess")
	store := a.sessionStore.(*sessions.CookieStore)
	asCookie, e1 := store.CookieCipher.Marshal(sess)
	asCode, e2 := a.AuthCodeCipher.Marshal(sess)
	zz.Assert(e1 == nil && e2 == nil, "C08.sealing succeeds under both keys")
	var out sessions.SessionState
	zz.Assert(a.AuthCodeCipher.Unmarshal(asCookie, &out) != nil, "C08.a value sealed under the cookie secret is not accepted as an authorization code")
	var out2 sessions.SessionState
	zz.Assert(store.CookieCipher.Unmarshal(asCode, &out2) != nil, "C08.an authorization code is not accepted as a session cookie")
	var out3 sessions.SessionState
	zz.Assert(a.AuthCodeCipher.Unmarshal(asCode, &out3) == nil && out3.Email == sess.Email, "C08.a code sealed under the session key opens")
	zz.Reach("wired")
}
