package auth

import (
	"strings"
	"encoding/json"
	"net/http"
	"net/url"
	"time"

	"github.com/buzzfeed/sso/internal/pkg/sessions"
	"github.com/buzzfeed/sso/internal/pkg/validators"
	zz "github.com/buzzfeed/sso/internal/zzverif"
)

func init() { VerifHarnesses["VerifC08Backchannel"] = VerifC08Backchannel }

// VerifC08Backchannel: one request to one of the four token endpoints THROUGH the real route
// table, with every placement of client id and secret (query / form body / header, absent,
// duplicated), any method, any code / refresh token / email / access token.
func VerifC08Backchannel() {
	zz.ClockMaxAdvance(time.Hour)
	env := verifNewAuth([]validators.Validator{validators.NewEmailDomainValidator([]string{"*"})}, []string{".sso.test"})
	routes := []string{"/redeem", "/refresh", "/profile", "/validate"}
	route := routes[zz.Choose("route", 4)]
	method := []string{"GET", "POST", "PUT"}[zz.Choose("method", 3)]
	req := zz.NewRequest(method, verifAuthHost, route, "")
	query, body := url.Values{}, url.Values(nil)
	hasBody := zz.NondetBool("has.body")
	if hasBody {
		body = url.Values{}
	}
	// client_id: in the query and/or in the body (0..2 values each place)
	place := func(key, label string, vals url.Values) {
		n := zz.Choose(label+".n", 3)
		for i := 0; i < n; i++ {
			vals.Add(key, zz.NondetString(label))
		}
	}
	place("client_id", "q.client_id", query)
	place("client_secret", "q.client_secret", query)
	if hasBody {
		place("client_id", "b.client_id", body)
		place("client_secret", "b.client_secret", body)
	}
	nh := zz.Choose("h.secret.n", 3)
	for i := 0; i < nh; i++ {
		req.Header.Add("X-Client-Secret", zz.NondetString("h.secret"))
	}
	// the code presented to /redeem: sealed by the code cipher (arbitrary session), sealed by the
	// COOKIE cipher (wrong key), or any other string
	var codeSess *sessions.SessionState
	code := ""
	switch zz.Choose("code.kind", 3) {
	case 0:
		codeSess = verifAuthSession("code.session")
		code = env.Codes.Preload("code", codeSess)
	case 1:
		code = env.Cookies.Preload("cookie", verifAuthSession("cookie.session"))
	case 2:
		code = zz.NondetString("code.forged")
	}
	target := query
	if hasBody && method == "POST" {
		target = body
	}
	target.Set("code", code)
	target.Set("refresh_token", zz.NondetString("refresh_token"))
	target.Set("email", zz.NondetString("email"))
	if zz.NondetBool("has.access.token") {
		req.Header.Set("X-Access-Token", zz.NondetString("access.token"))
	}
	malformed := zz.NondetBool("form.malformed")
	zz.SetForm(req, query, body, malformed)
	t0 := time.Now()
	rec := zz.NewRecorder()
	env.A.ServeMux.ServeHTTP(rec, req)

	// effective credentials as net/http's Form presents them: body values first (POST/PUT), then query
	first := func(key string) string {
		if hasBody && (method == "POST" || method == "PUT") {
			if vs := body[key]; len(vs) > 0 {
				return vs[0]
			}
		}
		if vs := query[key]; len(vs) > 0 {
			return vs[0]
		}
		return ""
	}
	id := first("client_id")
	if id == "" {
		// validateClientID falls back to the URL query when the form value is empty
		if vs := query["client_id"]; len(vs) > 0 {
			id = vs[0]
		}
	}
	secret := first("client_secret")
	if secret == "" {
		secret = req.Header.Get("X-Client-Secret")
	}
	credOK := zz.And(id == verifClientID, secret == verifClientSecret)
	st := rec.Status()
	acted := zz.Or(env.Provider.Calls > 0, st == 200, st == 201, rec.H.Get("Gap-Auth") != "")
	zz.ReachIf(zz.And(credOK, st == 200), "served-200")
	zz.ReachIf(!credOK, "bad-credentials")
	zz.Assert(zz.Implies(acted, credOK), "C08.endpoint acts only for the configured client id and secret")
	zz.Assert(zz.Implies(!credOK, zz.And(env.Provider.Calls == 0, zz.Or(st == 401, st == 405, st == 500), rec.H.Get("Gap-Auth") == "")), "C08.without credentials: error, no identity-provider call, nothing revealed")
	wantMethod := "GET"
	if route == "/redeem" || route == "/refresh" {
		wantMethod = "POST"
	}
	zz.Assert(zz.Implies(method != wantMethod, zz.And(st == 405, env.Provider.Calls == 0)), "C08.wrong method is rejected before anything else")
	if route == "/redeem" && st == 200 {
		zz.Reach("redeemed")
		zz.Assert(codeSess != nil, "C08.redeem succeeds only for a code sealed under the code cipher")
		if codeSess != nil {
			zz.Assert(zz.And(!codeSess.RefreshDeadline.Before(t0), !codeSess.LifetimeDeadline.Before(t0)), "C08.redeem succeeds only for an unexpired session")
			zz.Assert(rec.H.Get("Gap-Auth") == codeSess.Email, "C08.redeem reports that session's email")
			var out redeemResponse
			zz.Assert(json.Unmarshal(rec.Body, &out) == nil, "C08.redeem body is JSON")
			zz.Assert(zz.And(out.AccessToken == codeSess.AccessToken, out.RefreshToken == codeSess.RefreshToken, out.Email == codeSess.Email), "C08.redeem returns exactly that session's tokens and email")
		}
	}
	if route == "/redeem" && codeSess == nil {
		zz.Assert(st != 200, "C08.a value not sealed under the code key never redeems")
	}
}


var _ = http.StatusOK

func init() { VerifHarnesses["VerifC08CaseVariant"] = VerifC08CaseVariant }

// VerifC08CaseVariant: credentials are compared exactly - the configured client id or secret
// in another letter case (in the query, the form body or the header) is as wrong as any other
// value: no token endpoint acts on it.
func VerifC08CaseVariant() {
	zz.ClockMaxAdvance(time.Hour)
	env := verifNewAuth([]validators.Validator{validators.NewEmailDomainValidator([]string{"*"})}, []string{".sso.test"})
	routes := []string{"/redeem", "/refresh", "/profile", "/validate"}
	k := zz.Choose("route", 4)
	route := routes[k]
	method := []string{"POST", "POST", "GET", "GET"}[k]
	req := zz.NewRequest(method, verifAuthHost, route, "")
	id, secret := verifClientID, verifClientSecret
	where := zz.Choose("case-variant.of", 2)
	if where == 0 {
		id = strings.ToUpper(verifClientID)
	} else {
		secret = strings.ToUpper(verifClientSecret)
	}
	query, body := url.Values{}, url.Values(nil)
	query.Set("client_id", id)
	switch zz.Choose("secret.placement", 3) {
	case 0:
		query.Set("client_secret", secret)
	case 1:
		req.Header.Set("X-Client-Secret", secret)
	case 2:
		if method == "POST" {
			body = url.Values{}
			body.Set("client_secret", secret)
		} else {
			query.Set("client_secret", secret)
		}
	}
	target := query
	if body != nil {
		target = body
	}
	target.Set("code", env.Codes.Preload("code", verifAuthSession("code.session")))
	target.Set("refresh_token", zz.NondetString("refresh_token"))
	target.Set("email", zz.NondetString("email"))
	req.Header.Set("X-Access-Token", zz.NondetString("access.token"))
	zz.SetForm(req, query, body, false)
	rec := zz.NewRecorder()
	env.A.ServeMux.ServeHTTP(rec, req)
	st := rec.Status()
	zz.Reach("answered")
	zz.Assert(zz.And(env.Provider.Calls == 0, st == 401, rec.H.Get("Gap-Auth") == ""), "C08.credentials in another letter case are refused: 401, no identity-provider call, nothing revealed")
}
