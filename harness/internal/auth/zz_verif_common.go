package auth

// Shared environment of the authenticator harnesses (C07, C08, C09, C10, C18, C19): a real
// Authenticator with its real route table (newMux), real cookie stores, an ideal-AEAD
// cookie cipher and code cipher, and a scripted identity provider behind the
// providers.Provider interface (C10 uses the real Google/Okta/Cognito provider code).

import (
	"io"
	"net/http"
	"net/url"
	"time"

	"github.com/buzzfeed/sso/internal/auth/providers"
	"github.com/buzzfeed/sso/internal/pkg/sessions"
	"github.com/buzzfeed/sso/internal/pkg/validators"
	zz "github.com/buzzfeed/sso/internal/zzverif"
	"github.com/datadog/datadog-go/statsd"
)

var VerifHarnesses = map[string]func(){}

const (
	verifAuthHost     = "sso-auth.example"
	verifClientID     = "proxy-client-id"
	verifClientSecret = "proxy-client-secret"
	verifAuthCookie   = "_sso_auth_idp"
)

// verifProvider is the scripted identity provider: every answer is arbitrary, every call counted.
type verifProvider struct {
	Calls                                                  int
	RedeemCalls, ValidateCalls, RefreshCalls, GroupCalls, RevokeCalls, TokenCalls int
	RefreshOK, ValidateOK                                 bool
	RefreshErr, RevokeErr                                 error
	Log                                                    []string
	Redeemed                                               *sessions.SessionState
	RedeemErr                                              error
	Groups                                                 []string
	GroupErr                                               error
	Token                                                  string
	TokenTTL                                               time.Duration
	TokenErr                                               error
	SignInState, SignInRedirect                            string
	MutateOnRefresh                                        bool
}

func (p *verifProvider) SetStatsdClient(*statsd.Client) {}
func (p *verifProvider) Data() *providers.ProviderData  { return &providers.ProviderData{ProviderSlug: "idp", ProviderName: "scripted"} }
func (p *verifProvider) Stop()                          {}

func verifErrChoice(label string) error {
	switch zz.Choose(label, 5) {
	case 1:
		return providers.ErrTokenRevoked
	case 2:
		return providers.ErrRateLimitExceeded
	case 3:
		return providers.ErrServiceUnavailable
	case 4:
		return providers.ErrBadRequest
	}
	return nil
}

func (p *verifProvider) Redeem(redirectURI, code string) (*sessions.SessionState, error) {
	p.Calls++
	p.RedeemCalls++
	p.Log = append(p.Log, "redeem")
	p.RedeemErr = verifErrChoice("idp.redeem.err")
	if p.RedeemErr != nil {
		return nil, p.RedeemErr
	}
	s := &sessions.SessionState{}
	zz.Havoc("idp.redeem.session", s)
	p.Redeemed = s
	return s, nil
}

func (p *verifProvider) ValidateSessionState(s *sessions.SessionState) bool {
	p.Calls++
	p.ValidateCalls++
	p.Log = append(p.Log, "validate")
	p.ValidateOK = zz.NondetBool("idp.validate.ok")
	return p.ValidateOK
}

func (p *verifProvider) GetSignInURL(redirectURI, state string) string {
	p.SignInRedirect, p.SignInState = redirectURI, state
	return "https://idp.example/authorize?state=" + state
}

func (p *verifProvider) RefreshSessionIfNeeded(s *sessions.SessionState) (bool, error) {
	p.Calls++
	p.RefreshCalls++
	p.Log = append(p.Log, "refresh")
	p.RefreshErr = verifErrChoice("idp.refresh.err")
	if p.RefreshErr != nil {
		return false, p.RefreshErr
	}
	p.RefreshOK = zz.NondetBool("idp.refresh.ok")
	if p.RefreshOK {
		s.AccessToken = zz.NondetString("idp.refresh.token")
		s.RefreshDeadline = zz.NondetTime("idp.refresh.deadline")
	}
	return p.RefreshOK, nil
}

func (p *verifProvider) ValidateGroupMembership(email string, groups []string, token string) ([]string, error) {
	p.Calls++
	p.GroupCalls++
	p.Log = append(p.Log, "groups")
	p.GroupErr = verifErrChoice("idp.groups.err")
	if p.GroupErr != nil {
		return nil, p.GroupErr
	}
	p.Groups = nil
	n := zz.Choose("idp.groups.n", 3)
	for i := 0; i < n; i++ {
		p.Groups = append(p.Groups, zz.NondetString("idp.group"))
	}
	return p.Groups, nil
}

func (p *verifProvider) Revoke(s *sessions.SessionState) error {
	p.Calls++
	p.RevokeCalls++
	p.Log = append(p.Log, "revoke")
	p.RevokeErr = verifErrChoice("idp.revoke.err")
	return p.RevokeErr
}

func (p *verifProvider) RefreshAccessToken(rt string) (string, time.Duration, error) {
	p.Calls++
	p.TokenCalls++
	p.Log = append(p.Log, "token")
	p.TokenErr = verifErrChoice("idp.token.err")
	if p.TokenErr != nil {
		return "", 0, p.TokenErr
	}
	p.Token = zz.NondetString("idp.token")
	p.TokenTTL = zz.NondetDuration("idp.token.ttl")
	zz.Assume(p.TokenTTL >= 0)
	zz.Assume(p.TokenTTL < 1<<55)
	return p.Token, p.TokenTTL, nil
}

type verifTemplates struct{ Pages []string }

func (t *verifTemplates) ExecuteTemplate(w io.Writer, name string, data interface{}) {
	t.Pages = append(t.Pages, name)
	w.Write([]byte("<page " + name + ">"))
}

type verifAuthEnv struct {
	A          *Authenticator
	Provider   *verifProvider
	Cookies    *zz.Cipher
	Codes      *zz.Cipher
	Store      *sessions.CookieStore
	Templates  *verifTemplates
	RootDomain string
}

func verifNewAuth(v []validators.Validator, rootDomains []string) *verifAuthEnv {
	env := &verifAuthEnv{Provider: &verifProvider{}, Cookies: &zz.Cipher{Name: "authcookie"}, Codes: &zz.Cipher{Name: "code"}, Templates: &verifTemplates{}}
	env.Store = &sessions.CookieStore{Name: verifAuthCookie, CSRFCookieName: verifAuthCookie + "_csrf", CookieExpire: 168 * time.Hour, CookieSecure: true,
		CookieHTTPOnly: true, CookieCipher: env.Cookies}
	a := &Authenticator{Validators: v, Host: verifAuthHost, Scheme: "https", ProxyRootDomains: rootDomains,
		csrfStore: env.Store, sessionStore: env.Store, redirectURL: &url.URL{Scheme: "https", Host: verifAuthHost, Path: "/callback"},
		provider: env.Provider, AuthCodeCipher: env.Codes, ProxyClientID: verifClientID, ProxyClientSecret: verifClientSecret,
		templates: env.Templates, SessionLifetimeTTL: 720 * time.Hour}
	a.ServeMux = a.newMux()
	env.A = a
	return env
}

func verifCookieOK(v string) bool {
	return zz.And(v != "", !contains(v, ";"), !contains(v, " "), !contains(v, "\""), !contains(v, ","), !contains(v, "\\"))
}

// verifAuthSession draws an arbitrary authenticator session.
func verifAuthSession(label string) *sessions.SessionState {
	s := &sessions.SessionState{}
	s.ProviderSlug = "idp"
	s.AccessToken = zz.NondetString(label + ".access")
	s.RefreshToken = zz.NondetString(label + ".refresh")
	s.RefreshDeadline = zz.NondetTime(label + ".refreshDeadline")
	s.LifetimeDeadline = zz.NondetTime(label + ".lifetimeDeadline")
	s.ValidDeadline = zz.NondetTime(label + ".validDeadline")
	s.Email = zz.NondetString(label + ".email")
	s.User = zz.NondetString(label + ".user")
	return s
}

func verifSetCookie(req *http.Request, name, value string) {
	req.Header.Set("Cookie", zz.CookieLine(&http.Cookie{Name: name, Value: value}))
}
