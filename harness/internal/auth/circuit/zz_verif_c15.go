package circuit

// C15 harnesses: the real Breaker methods executed from an arbitrary valid state
// (step obligations, a differential against the reference machine written below)
// and from NewBreaker over a bounded sequence of overlapping calls (unrolled).

import (
	"time"

	"github.com/benbjohnson/clock"
	zz "github.com/buzzfeed/sso/internal/zzverif"
)

var VerifHarnesses = map[string]func(){
	"VerifC15Before":   VerifC15Before,
	"VerifC15After":    VerifC15After,
	"VerifC15Unrolled": VerifC15Unrolled,
	"VerifC15Call":     VerifC15Call,
	"VerifSelftestBreaker": VerifSelftestBreaker,
}

type verifFixedClock struct {
	clock.Clock
	now *time.Time
}

func (c verifFixedClock) Now() time.Time { return *c.now }

// VerifSelftestBreaker: the scripted scenario of breaker_test.go (three failures trip, back-off,
// half-open, success closes) with a concrete clock, observed in both execution modes.
func VerifSelftestBreaker() {
	now := time.Unix(1000, 0)
	changes := ""
	b := NewBreaker(&Options{
		BackoffDurationFunc: func(Counts) time.Duration { return 10 * time.Second },
		OnStateChange:       func(from, to State) { changes += from.String() + ">" + to.String() + " " },
		TestClock:           verifFixedClock{now: &now},
	})
	fail := func() (interface{}, error) { return nil, errVerif }
	succeed := func() (interface{}, error) { return 1, nil }
	for i := 0; i < 3; i++ {
		_, err := b.Call(fail)
		zz.Observe("fail", err != nil)
	}
	_, err := b.Call(succeed)
	_, open := err.(*ErrOpenState)
	zz.Observe("open.rejects", open)
	now = now.Add(11 * time.Second)
	_, err = b.Call(succeed)
	zz.Observe("half-open.admits", err == nil)
	zz.Observe("state", b.state.String()+" gen "+string(rune('0'+b.generation)))
	_, err = b.Call(fail)
	_, err = b.Call(fail)
	zz.Observe("counts", int(b.counts.ConsecutiveFailures)*10+int(b.counts.ConsecutiveSuccesses))
	zz.Observe("changes", changes)
}

type verifClock struct {
	clock.Clock
	last *time.Time
}

// Now is an arbitrary non-decreasing clock.
func (c verifClock) Now() time.Time {
	t := zz.NondetTime("clock")
	zz.Assume(!t.IsZero() && !t.Before(*c.last))
	*c.last = t
	return t
}

type verifHooks struct {
	changes int
	lastTo  State
	backoff int
	lastDur time.Duration // the duration the back-off rule returned last
	clock   *time.Time    // the latest clock reading
}

func verifTrip(c Counts) bool {
	return zz.UFBool("trip", c.CurrentRequests, c.ConsecutiveSuccesses, c.ConsecutiveFailures)
}
func verifReset(c Counts) bool {
	return zz.UFBool("reset", c.CurrentRequests, c.ConsecutiveSuccesses, c.ConsecutiveFailures)
}

// verifBreaker builds an arbitrary breaker satisfying the representation invariant.
func verifBreaker(h *verifHooks) *Breaker {
	b := &Breaker{}
	b.halfOpenRequests = zz.NondetInt("halfOpenRequests")
	zz.Assume(b.halfOpenRequests >= 1 && b.halfOpenRequests < 1<<30)
	b.shouldTripFunc = verifTrip
	b.shouldResetFunc = verifReset
	b.backoffDurationFunc = func(c Counts) time.Duration {
		d := zz.NondetDuration("backoff")
		zz.Assume(d >= 0 && d < 1<<50)
		h.lastDur = d
		return d
	}
	b.onStateChange = func(prev, to State) { h.changes++; h.lastTo = to }
	b.onBackoff = func(time.Duration, time.Time) { h.backoff++ }
	last := time.Unix(0, 0)
	h.clock = &last
	b.clock = verifClock{last: &last}
	b.state = State(zz.NondetInt("state"))
	zz.Assume(b.state >= 0 && b.state <= 2)
	b.generation = zz.NondetInt("generation")
	b.counts.CurrentRequests = zz.NondetInt("cur")
	b.counts.ConsecutiveSuccesses = zz.NondetInt("succ")
	b.counts.ConsecutiveFailures = zz.NondetInt("fail")
	zz.Assume(b.generation >= 0 && b.generation < 1<<40)
	zz.Assume(b.counts.CurrentRequests >= 0 && b.counts.ConsecutiveSuccesses >= 0 && b.counts.ConsecutiveFailures >= 0)
	zz.Assume(b.counts.CurrentRequests < 1<<40 && b.counts.ConsecutiveSuccesses < 1<<40 && b.counts.ConsecutiveFailures < 1<<40)
	// invariant: a trip clears the counters and nothing counts while open
	zz.Assume(b.state != StateOpen || b.counts.ConsecutiveSuccesses == 0)
	b.backoffExpires = zz.NondetTime("backoffExpires")
	return b
}

// VerifC15Before: one admission step from an arbitrary valid state.
func VerifC15Before() {
	h := &verifHooks{}
	b := verifBreaker(h)
	st0, gen0, c0, exp0, half := b.state, b.generation, b.counts, b.backoffExpires, b.halfOpenRequests
	gen, err := b.beforeRequest()
	admitted := err == nil
	switch st0 {
	case StateClosed:
		zz.Reach("closed")
		zz.Assert(admitted, "closed admits")
		zz.Assert(b.state == StateClosed && b.generation == gen0 && gen == gen0, "closed unchanged")
		zz.Assert(h.changes == 0, "closed: no hook")
	case StateHalfOpen:
		zz.Reach("halfopen")
		zz.Assert(admitted == (c0.CurrentRequests < half), "half-open cap")
		zz.Assert(b.state == StateHalfOpen && b.generation == gen0, "half-open unchanged")
	case StateOpen:
		zz.Reach("open")
		if b.state == StateOpen {
			zz.Reach("open-rejects")
			zz.Assert(!admitted, "open rejects")
			zz.Assert(b.generation == gen0 && b.counts.CurrentRequests == c0.CurrentRequests, "open reject changes nothing")
			zz.Assert(h.changes == 0, "open reject: no hook")
		} else {
			zz.Reach("open-to-halfopen")
			zz.Assert(b.state == StateHalfOpen && b.generation == gen0+1, "open->half-open bumps generation")
			zz.Assert(admitted == (c0.CurrentRequests < half), "half-open cap after backoff")
			zz.Assert(h.changes == 1 && h.lastTo == StateHalfOpen, "open->half-open calls hook once")
		}
	}
	if admitted {
		zz.Assert(gen == b.generation, "admitted under current generation")
		zz.Assert(b.counts.CurrentRequests == c0.CurrentRequests+1, "admitted counted")
		zz.Assert(b.state != StateOpen, "never admitted while open")
	} else {
		zz.Reach("rejected")
		zz.Assert(b.counts.CurrentRequests == c0.CurrentRequests, "rejected not counted")
		_, isOpenErr := err.(*ErrOpenState)
		zz.Assert(isOpenErr, "rejection is ErrOpenState")
	}
	zz.Assert(b.counts.ConsecutiveSuccesses == c0.ConsecutiveSuccesses && b.counts.ConsecutiveFailures == c0.ConsecutiveFailures, "admission leaves outcome counters")
	zz.Assert(b.backoffExpires.Equal(exp0), "admission leaves backoff")
	zz.Assert(h.backoff == 0, "admission sets no backoff")
	zz.Assert(b.state != StateOpen || b.counts.ConsecutiveSuccesses == 0, "inv: open => successes 0")
}

// VerifC15After: one completion step from an arbitrary valid state.
func VerifC15After() {
	h := &verifHooks{}
	b := verifBreaker(h)
	zz.Assume(b.counts.CurrentRequests >= 1) // the completing call is in flight
	g := zz.NondetInt("admitGeneration")
	zz.Assume(g >= 0 && g <= b.generation)
	zz.Assume(g != b.generation || b.state != StateOpen) // admitted in the current generation => not open
	success := zz.NondetBool("success")
	st0, gen0, c0, exp0 := b.state, b.generation, b.counts, b.backoffExpires
	tBefore := *h.clock
	b.afterRequest(success, g)
	tAfter := *h.clock
	// a new back-off runs from the moment of this failure: now + the rule's duration
	newBackoffOK := zz.And(!b.backoffExpires.Before(tBefore.Add(h.lastDur)), !b.backoffExpires.After(tAfter.Add(h.lastDur)))
	zz.Assert(b.counts.CurrentRequests == c0.CurrentRequests-1, "in-flight decremented")
	zz.Assert(b.counts.CurrentRequests >= 0, "in-flight non-negative")
	stale := g != gen0 || st0 == StateOpen // open can only become half-open here, which bumps the generation
	if stale {
		zz.Reach("stale")
		zz.Assert(b.counts.ConsecutiveSuccesses == c0.ConsecutiveSuccesses && b.counts.ConsecutiveFailures == c0.ConsecutiveFailures, "stale result leaves counters")
		zz.Assert(b.state == st0 && b.generation == gen0 || (st0 == StateOpen && b.state == StateHalfOpen && b.generation == gen0+1), "stale result: only clock-driven change")
		zz.Assert(b.backoffExpires.Equal(exp0), "stale result leaves backoff")
		zz.Assert(h.backoff == 0, "stale result sets no backoff")
	} else if st0 == StateClosed {
		if success {
			zz.Reach("closed-success")
			zz.Assert(b.state == StateClosed && b.generation == gen0, "closed success stays closed")
			zz.Assert(b.counts.ConsecutiveSuccesses == c0.ConsecutiveSuccesses+1 && b.counts.ConsecutiveFailures == 0, "closed success counters")
			zz.Assert(h.changes == 0 && h.backoff == 0, "closed success: no hooks")
		} else {
			trip := zz.UFBool("trip", c0.CurrentRequests-1, 0, c0.ConsecutiveFailures+1)
			if trip {
				zz.Reach("trip")
				zz.Assert(b.state == StateOpen && b.generation == gen0+1, "trips open")
				zz.Assert(b.counts.ConsecutiveSuccesses == 0 && b.counts.ConsecutiveFailures == 0, "trip clears counters")
				zz.Assert(h.changes == 1 && h.lastTo == StateOpen && h.backoff == 1, "trip hooks")
				zz.Assert(!b.backoffExpires.IsZero(), "trip sets backoff")
				zz.Assert(newBackoffOK, "trip: open until the time of the trip plus the back-off duration")
			} else {
				zz.Reach("no-trip")
				zz.Assert(b.state == StateClosed && b.generation == gen0, "no trip stays closed")
				zz.Assert(b.counts.ConsecutiveFailures == c0.ConsecutiveFailures+1 && b.counts.ConsecutiveSuccesses == 0, "failure counted")
				zz.Assert(b.backoffExpires.Equal(exp0) && h.backoff == 0, "no trip leaves backoff")
			}
		}
	} else { // half-open, current generation
		if success {
			reset := zz.UFBool("reset", c0.CurrentRequests-1, c0.ConsecutiveSuccesses+1, 0)
			if reset {
				zz.Reach("reset")
				zz.Assert(b.state == StateClosed && b.generation == gen0+1, "reset closes")
				zz.Assert(b.counts.ConsecutiveSuccesses == 0 && b.counts.ConsecutiveFailures == 0, "reset clears")
			} else {
				zz.Reach("no-reset")
				zz.Assert(b.state == StateHalfOpen && b.generation == gen0, "no reset stays half-open")
				zz.Assert(b.counts.ConsecutiveSuccesses == c0.ConsecutiveSuccesses+1, "half-open success counted")
			}
			zz.Assert(b.backoffExpires.Equal(exp0) && h.backoff == 0, "half-open success leaves backoff")
		} else {
			zz.Reach("reopen")
			zz.Assert(b.state == StateOpen && b.generation == gen0+1, "half-open failure re-opens")
			zz.Assert(h.backoff == 1 && h.changes == 1, "re-open sets a new backoff")
			zz.Assert(newBackoffOK, "re-open: open until the time of the failed probe plus the back-off duration")
			zz.Assert(b.counts.ConsecutiveSuccesses == 0, "re-open: successes cleared")
		}
	}
	zz.Assert(b.state != StateOpen || b.counts.ConsecutiveSuccesses == 0, "inv: open => successes 0")
}

// VerifC15Call: Call runs f exactly when admitted and reports its outcome under the admission generation.
func VerifC15Call() {
	h := &verifHooks{}
	b := verifBreaker(h)
	c0 := b.counts
	ran := 0
	fail := zz.NondetBool("fFails")
	var genDuring int
	_, err := b.Call(func() (interface{}, error) {
		ran++
		genDuring = b.generation
		zz.Assert(b.counts.CurrentRequests == c0.CurrentRequests+1, "f runs counted in flight")
		zz.Assert(b.state != StateOpen, "f never runs while open")
		if fail {
			return nil, errVerif
		}
		return 1, nil
	})
	_ = genDuring
	if ran == 0 {
		zz.Reach("call-rejected")
		_, isOpenErr := err.(*ErrOpenState)
		zz.Assert(isOpenErr, "rejected call returns ErrOpenState")
		zz.Assert(b.counts == c0, "rejected call leaves counts")
	} else {
		zz.Reach("call-ran")
		zz.Assert(ran == 1, "f runs once")
		zz.Assert((err != nil) == fail, "Call returns f's outcome")
		zz.Assert(b.counts.CurrentRequests == c0.CurrentRequests, "in-flight restored after Call")
	}
}

type verifErr struct{}

func (verifErr) Error() string { return "verif" }

var errVerif error = verifErr{}

// ---- unrolled: implementation vs reference machine over T operations, <= 3 overlapping calls ----

type refMachine struct {
	state      State
	generation int
	cur, succ, fail int
	expires    time.Time
}

// VerifC15Unrolled drives the real breaker and the reference machine with the same
// symbolic schedule of starts / completions / clock advances.
func VerifC15Unrolled() {
	h := &verifHooks{}
	half := zz.NondetInt("halfOpenRequests")
	zz.Assume(half >= 1 && half <= 3)
	last := time.Unix(0, 0)
	clk := verifClock{last: &last}
	var lastBackoff time.Time
	b := NewBreaker(&Options{HalfOpenConcurrentRequests: half, ShouldTripFunc: verifTrip, ShouldResetFunc: verifReset,
		BackoffDurationFunc: func(Counts) time.Duration {
			d := zz.NondetDuration("backoff")
			zz.Assume(d >= 0 && d < 1<<50)
			return d
		},
		OnStateChange: func(prev, to State) { h.changes++; h.lastTo = to },
		OnBackoff:     func(d time.Duration, t time.Time) { h.backoff++; lastBackoff = t },
		TestClock:     clk})
	ref := refMachine{state: StateClosed, generation: b.generation}
	zz.Assert(b.state == StateClosed && b.counts == Counts{}, "NewBreaker starts closed and clear")
	const maxCalls = 3
	var inflight [maxCalls]bool
	var gens [maxCalls]int
	T := zz.Bound("verifUnrollT", 5)
	for step := 0; step < T; step++ {
		op := zz.Choose("op", 2) // 0 = start a call, 1 = complete a call
		if op == 0 {
			slot := -1
			for i := 0; i < maxCalls; i++ {
				if !inflight[i] {
					slot = i
					break
				}
			}
			if slot < 0 {
				continue
			}
			g, err := b.beforeRequest()
			now := *clk.last
			// reference: admission
			if ref.state == StateOpen && now.After(ref.expires) {
				ref.state = StateHalfOpen
				ref.generation++
			}
			admit := ref.state == StateClosed || ref.state == StateHalfOpen && ref.cur < half
			if admit {
				ref.cur++
			}
			zz.Assert((err == nil) == admit, "unrolled: admit agrees with reference")
			if err == nil {
				zz.Reach("u-admit")
				inflight[slot] = true
				gens[slot] = g
				zz.Assert(g == ref.generation, "unrolled: admission generation")
			} else {
				zz.Reach("u-reject")
			}
		} else {
			slot := zz.Choose("slot", maxCalls)
			if !inflight[slot] {
				continue
			}
			success := zz.NondetBool("success")
			b.afterRequest(success, gens[slot])
			now := *clk.last
			inflight[slot] = false
			ref.cur--
			if ref.state == StateOpen && now.After(ref.expires) {
				ref.state = StateHalfOpen
				ref.generation++
			}
			if gens[slot] == ref.generation {
				if success {
					ref.succ++
					ref.fail = 0
					if ref.state == StateHalfOpen && verifReset(Counts{ref.cur, ref.succ, ref.fail}) {
						ref.state = StateClosed
						ref.generation++
						ref.succ, ref.fail = 0, 0
					}
				} else {
					ref.fail++
					ref.succ = 0
					switch ref.state {
					case StateClosed:
						if verifTrip(Counts{ref.cur, ref.succ, ref.fail}) {
							zz.Reach("u-trip")
							ref.state = StateOpen
							ref.generation++
							ref.succ, ref.fail = 0, 0
							ref.expires = lastBackoff
						}
					case StateHalfOpen:
						zz.Reach("u-reopen")
						ref.state = StateOpen
						ref.generation++
						ref.expires = lastBackoff
					}
				}
			} else {
				zz.Reach("u-stale")
			}
		}
		zz.Assert(b.state == ref.state, "unrolled: state agrees with reference")
		zz.Assert(b.generation == ref.generation, "unrolled: generation agrees")
		zz.Assert(b.counts.CurrentRequests == ref.cur && b.counts.ConsecutiveSuccesses == ref.succ && b.counts.ConsecutiveFailures == ref.fail, "unrolled: counters agree")
		zz.Assert(b.counts.CurrentRequests >= 0, "unrolled: in-flight never negative")
		n := 0
		for i := 0; i < maxCalls; i++ {
			if inflight[i] && gens[i] == b.generation {
				n++
			}
		}
		zz.Assert(b.state != StateHalfOpen || n <= half, "unrolled: half-open admits at most the cap")
		zz.Assert(b.state != StateOpen || ref.expires.Equal(b.backoffExpires), "unrolled: open has the last backoff deadline")
	}
}


// verifModel_clock_New replaces clock.New() (the wall clock NewBreaker installs before
// Options.TestClock overrides it): the harnesses always supply TestClock.
func verifModel_clock_New() clock.Clock { return nil }
