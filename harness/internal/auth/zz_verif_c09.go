package auth

import (
	"encoding/base64"
	"net/url"
	"strconv"
	"time"

	"github.com/buzzfeed/sso/internal/pkg/sessions"
	"github.com/buzzfeed/sso/internal/pkg/validators"
	zz "github.com/buzzfeed/sso/internal/zzverif"
)

func init() {
	VerifHarnesses["VerifC09SignIn"] = VerifC09SignIn
	VerifHarnesses["VerifC09Callback"] = VerifC09Callback
}

func verifAuthValidators() ([]validators.Validator, string) {
	// NewAuthenticatorMux: a single validator, from addresses if any are configured, else from domains
	if zz.NondetBool("rule.is.address") {
		return []validators.Validator{validators.NewEmailAddressValidator([]string{zz.NondetString("rule.address")})}, "address"
	}
	return []validators.Validator{validators.NewEmailDomainValidator([]string{zz.NondetString("rule.domain")})}, "domain"
}

// VerifC09SignIn: /sign_in with a genuinely signed request and an arbitrary authenticator cookie.
func VerifC09SignIn() {
	zz.ClockMaxAdvance(time.Second)
	v, _ := verifAuthValidators()
	env := verifNewAuth(v, []string{".sso.test"})
	uri := zz.MakeURL("https", "app.sso.test", "/oauth2/callback", "")
	ts := time.Now().Unix()
	req := zz.NewRequest("GET", verifAuthHost, "/sign_in", "")
	q := url.Values{}
	q.Set("redirect_uri", uri)
	q.Set("sig", verifSign(verifClientSecret, uri, ts))
	q.Set("ts", strconv.FormatInt(ts, 10))
	q.Set("client_id", verifClientID)
	q.Set("state", zz.NondetString("state"))
	zz.SetForm(req, q, nil, false)
	var s0 sessions.SessionState
	kind := zz.Choose("cookie.kind", 3)
	switch kind {
	case 1:
		s := verifAuthSession("sess")
		s0 = *s
		verifSetCookie(req, verifAuthCookie, env.Cookies.Preload("cookie", s))
	case 2:
		forged := zz.NondetString("cookie.forged")
		zz.Assume(verifCookieOK(forged))
		verifSetCookie(req, verifAuthCookie, forged)
	}
	t0 := time.Now()
	rec := zz.NewRecorder()
	env.A.ServeMux.ServeHTTP(rec, req)
	tEnd := time.Now()
	p := env.Provider
	issued := env.Codes.Marshals > 0
	st := rec.Status()
	zz.ReachIf(issued, "code-issued")
	zz.ReachIf(zz.And(!issued, st == 200), "sign-in-page")
	zz.ReachIf(zz.And(!issued, st != 200), "error-page")
	zz.Assert(zz.Implies(issued, zz.And(st == 302, kind == 1)), "C09.code only with an authentic cookie, as a redirect")
	if kind == 1 {
		refreshDue := s0.RefreshDeadline.Before(t0)
		refreshNotDue := !s0.RefreshDeadline.Before(tEnd)
		refreshed := zz.And(p.RefreshCalls == 1, p.RefreshErr == nil, p.RefreshOK)
		validated := zz.And(p.ValidateCalls == 1, p.ValidateOK)
		zz.Assert(zz.Implies(issued, !s0.LifetimeDeadline.Before(t0)), "C09.code only within the session lifetime")
		zz.Assert(zz.Implies(zz.And(issued, refreshDue), refreshed), "C09.code after a due refresh only if the provider refreshed the token")
		zz.Assert(zz.Implies(zz.And(issued, refreshNotDue), validated), "C09.code only if the provider currently accepts the token")
		zz.Assert(zz.Implies(issued, zz.Or(refreshed, validated)), "C09.code only after the provider confirmed the session")
		probe := &sessions.SessionState{Email: s0.Email}
		zz.Assert(zz.Implies(issued, v[0].Validate(probe) == nil), "C09.code only if the email satisfies the authenticator's rule")
		// the code that was sealed carries the (possibly refreshed) session, lifetime untouched
		if issued {
			var sealed sessions.SessionState
			loc, _ := url.Parse(rec.H.Get("Location"))
			code := ""
			if loc != nil {
				code = zz.QueryOfURL(loc).Get("code")
			}
			zz.Assert(env.Codes.Unmarshal(code, &sealed) == nil, "C09.redirect carries a code sealed under the code key")
			zz.Assert(zz.And(sealed.LifetimeDeadline.Equal(s0.LifetimeDeadline), sealed.Email == s0.Email, sealed.RefreshToken == s0.RefreshToken), "C09.refresh never extends the lifetime or changes identity")
		}
		// the re-saved cookie keeps the lifetime too
		if c := verifAuthSessionCookie(rec); c != nil && c.Value != "" {
			var s1 sessions.SessionState
			if env.Cookies.Unmarshal(c.Value, &s1) == nil {
				zz.Reach("session-resaved")
				zz.Assert(zz.And(s1.LifetimeDeadline.Equal(s0.LifetimeDeadline), s1.Email == s0.Email), "C09.re-saved authenticator session keeps lifetime and identity")
			}
		}
	}
	zz.Assert(zz.Implies(!issued, zz.Or(st == 200, st == 400, st == 401, st == 403, st == 429, st == 500, st == 503)), "C09.otherwise sign-in page or error page")
	zz.Assert(zz.Implies(!issued, rec.H.Get("Location") == ""), "C09.no redirect without a code")
}

func verifAuthSessionCookie(rec *zz.Recorder) *cookieT {
	var out *cookieT
	for _, c := range rec.SetCookies() {
		if c.Name == verifAuthCookie {
			out = c
		}
	}
	return out
}

// VerifC09Callback: the identity-provider callback creates the authenticator session only for
// the browser that started (nonce == CSRF cookie), an in-domain redirect, a redeemed code and
// an accepted email.
func VerifC09Callback() {
	zz.ClockMaxAdvance(time.Second)
	v, _ := verifAuthValidators()
	env := verifNewAuth(v, []string{".sso.test"})
	nonce := zz.NondetString("nonce")
	zz.Assume(!contains(nonce, ":")) // any colon-free string, the empty one included (it comes from the state, not from a cookie)
	rHost := zz.NondetString("redirect.host")
	zz.Assume(verifHostOK(rHost))
	redirect := zz.MakeURL("https", rHost, "/sign_in", "")
	req := zz.NewRequest("GET", verifAuthHost, "/callback", "")
	q := url.Values{}
	stateKind := zz.Choose("state.kind", 3)
	switch stateKind {
	case 0:
		q.Set("state", base64.URLEncoding.EncodeToString([]byte(nonce+":"+redirect)))
	case 1:
		raw := zz.NondetString("state.raw.without.colon")
		zz.Assume(!contains(raw, ":"))
		q.Set("state", base64.URLEncoding.EncodeToString([]byte(raw)))
	case 2:
		g := zz.NondetString("state.garbage")
		_, derr := base64.URLEncoding.DecodeString(g)
		zz.Assume(derr != nil) // decodable states are kinds 0 and 1
		q.Set("state", g)
	}
	code := zz.NondetString("code")
	q.Set("code", code)
	errParam := ""
	if zz.NondetBool("error.param") {
		errParam = zz.NondetString("error")
		q.Set("error", errParam)
	}
	zz.SetForm(req, q, nil, false)
	csrf, hasCSRF := "", zz.NondetBool("csrf.present")
	if hasCSRF {
		csrf = zz.NondetString("csrf.value")
		// any value net/http accepts in a Cookie header (commas included; surrounding spaces are trimmed there)
		zz.Assume(zz.And(csrf != "", !contains(csrf, ";"), !contains(csrf, " "), !contains(csrf, "\""), !contains(csrf, "\\")))
		verifSetCookie(req, verifAuthCookie+"_csrf", csrf)
	}
	rec := zz.NewRecorder()
	env.A.ServeMux.ServeHTTP(rec, req)
	p := env.Provider
	saved := false
	var s1 sessions.SessionState
	if c := verifAuthSessionCookie(rec); c != nil && c.Value != "" {
		saved = env.Cookies.Unmarshal(c.Value, &s1) == nil
	}
	zz.ReachIf(saved, "session-created")
	zz.ReachIf(!saved, "no-session")
	redeemed := zz.And(p.RedeemCalls == 1, p.RedeemErr == nil)
	zz.Assert(zz.Implies(saved, zz.And(stateKind == 0, hasCSRF, csrf == nonce, errParam == "", code != "", redeemed)), "C09.session only if the state nonce equals the CSRF cookie and the provider redeemed the code")
	if saved && p.Redeemed != nil {
		zz.Assert(s1.Email == p.Redeemed.Email && s1.Email != "", "C09.session holds the redeemed email")
		zz.Assert(v[0].Validate(&sessions.SessionState{Email: s1.Email}) == nil, "C09.session only if the email satisfies the authenticator's rule")
		zz.Assert(verifInDomain(rHost, ".sso.test"), "C09.session only with an in-domain redirect")
		zz.Assert(rec.Status() == 302 && rec.H.Get("Location") == redirect, "C09.then redirects to the redirect from state")
	}
	zz.Assert(zz.Implies(!saved, rec.Status() != 302), "C09.no session: error page")
}
