package auth

import (
	"net/url"
	"time"

	"github.com/buzzfeed/sso/internal/pkg/validators"
	zz "github.com/buzzfeed/sso/internal/zzverif"
)

func init() { VerifHarnesses["VerifC18Auth"] = VerifC18Auth }

// the authenticator's documented security header set (the specification side: literal values)
var verifAuthSecurityHeaders = [][2]string{
	{"Strict-Transport-Security", "max-age=31536000"},
	{"X-Frame-Options", "DENY"},
	{"X-Content-Type-Options", "nosniff"},
	{"X-Xss-Protection", "1; mode=block"},
	{"Content-Security-Policy", "default-src 'none'; style-src 'self'; img-src 'self';"},
	{"Referrer-Policy", "Same-origin"},
}

// VerifC18Auth: one arbitrary request to any route of the authenticator's REAL route table
// (newMux: setHeaders around the service mux), any method, arbitrary parameters, with or
// without a session cookie, against a scripted identity provider: every response - page,
// redirect, JSON answer or error - carries each header of the security set exactly once
// with the documented value.
func VerifC18Auth() {
	zz.ClockMaxAdvance(time.Hour)
	env := verifNewAuth([]validators.Validator{validators.NewEmailDomainValidator([]string{"*"})}, []string{".sso.test"})
	routes := []string{"/start", "/sign_in", "/sign_out", "/callback", "/profile", "/validate", "/redeem", "/refresh", "/no-such-route"}
	route := routes[zz.Choose("route", len(routes))]
	method := []string{"GET", "POST", "DELETE"}[zz.Choose("method", 3)]
	req := zz.NewRequest(method, verifAuthHost, route, "")
	q := url.Values{}
	for _, k := range []string{"client_id", "client_secret", "redirect_uri", "sig", "ts", "state", "code", "error", "email", "refresh_token"} {
		q.Set(k, zz.NondetString("q."+k)) // may be empty: what Form.Get returns for an absent parameter
	}
	if route == "/start" && zz.NondetBool("start.structured") {
		// /start parses a URL nested in a URL: the structured shape (any hosts, any sig/ts) beside the arbitrary string
		inner := url.Values{}
		h1, h2 := zz.NondetString("nested.host"), zz.NondetString("outer.host")
		zz.Assume(zz.And(verifHostOK(h1), verifHostOK(h2)))
		inner.Set("redirect_uri", zz.MakeURL("https", h1, "/oauth2/callback", ""))
		inner.Set("sig", zz.NondetString("nested.sig"))
		inner.Set("ts", zz.NondetString("nested.ts"))
		q.Set("redirect_uri", zz.MakeURL("https", h2, "/sign_in", zz.MakeQuery(inner)))
	} else if route == "/start" {
		q.Set("redirect_uri", []string{"", "::not a url", "https://evil.example/x"}[zz.Choose("start.bad", 3)])
	}
	if zz.NondetBool("has.secret.header") {
		req.Header.Set("X-Client-Secret", zz.NondetString("h.secret"))
	}
	if zz.NondetBool("accept.json") {
		req.Header.Set("Accept", "application/json")
	}
	zz.SetForm(req, q, nil, zz.NondetBool("form.malformed"))
	switch zz.Choose("cookie", 3) {
	case 1:
		verifSetCookie(req, verifAuthCookie, env.Cookies.Preload("session", verifAuthSession("sess")))
	case 2:
		v := zz.NondetString("cookie.forged")
		zz.Assume(verifCookieOK(v))
		verifSetCookie(req, verifAuthCookie, v)
	}
	rec := zz.NewRecorder()
	env.A.ServeMux.ServeHTTP(rec, req)
	zz.Reach("answered")
	zz.ReachIf(rec.Status() == 302, "redirect")
	zz.ReachIf(rec.Status() == 200, "ok")
	zz.ReachIf(rec.Status() >= 400, "error")
	zz.ReachIf(route == "/start" && rec.Status() == 302, "idp-login-started")
	zz.ReachIf(route == "/redeem" && rec.Status() == 200, "redeemed")
	zz.ReachIf(route == "/no-such-route", "not-found")
	for _, h := range verifAuthSecurityHeaders {
		vs := rec.H[h[0]]
		zz.Assert(len(vs) == 1 && vs[0] == h[1], "C18.authenticator response carries "+h[0]+" exactly once with the documented value")
	}
}
