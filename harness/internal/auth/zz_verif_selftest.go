package auth

import (
	"fmt"
	"net/http"
	"strconv"
	"time"

	"github.com/buzzfeed/sso/internal/auth/providers"
	zz "github.com/buzzfeed/sso/internal/zzverif"
)

func init() { VerifHarnesses["VerifSelftestAuth"] = VerifSelftestAuth }

// VerifSelftestAuth: middleware_test.go style inputs through the real functions.
func VerifSelftestAuth() {
	roots := []string{".example.com", ".sso.test"}
	for _, u := range []string{"https://foo.example.com/redirect", "https://example.com/", "https://evilexample.com/", "http://foo.sso.test:8080/x?y=1",
		"", "/relative", "https://example.com.evil.org/", "https://foo.example.com.", "javascript://example.com/%0aalert(1)", "https://user@foo.example.com/"} {
		zz.Observe("validRedirectURI:"+u, validRedirectURI(u, roots))
	}
	zz.ClockMaxAdvance(time.Second)
	now := time.Now()
	secret := "shh"
	uri := "https://foo.example.com/oauth2/callback"
	good := verifSign(secret, uri, now.Unix())
	zz.Observe("sig.fresh", validSignature(uri, good, strconv.FormatInt(now.Unix(), 10), secret))
	zz.Observe("sig.old", validSignature(uri, verifSign(secret, uri, now.Unix()-3600), strconv.FormatInt(now.Unix()-3600, 10), secret))
	zz.Observe("sig.wrong.secret", validSignature(uri, good, strconv.FormatInt(now.Unix(), 10), "other"))
	zz.Observe("sig.wrong.uri", validSignature(uri+"x", good, strconv.FormatInt(now.Unix(), 10), secret))
	zz.Observe("sig.bad.ts", validSignature(uri, good, "notanumber", secret))
	zz.Observe("sig.bad.b64", validSignature(uri, "***", strconv.FormatInt(now.Unix(), 10), secret))
	zz.Observe("sig.empty", validSignature("", good, "1", secret))
	zz.Observe("codes", fmt.Sprint(codeForError(providers.ErrBadRequest), codeForError(providers.ErrTokenRevoked), codeForError(providers.ErrRateLimitExceeded),
		codeForError(providers.ErrServiceUnavailable), codeForError(ErrUserNotAuthorized), codeForError(http.ErrNoCookie)))
	u, err := getAuthCodeRedirectURL(mustParse("http://foo.example.com/oauth2/callback?x=1"), "state1", "code1", "https")
	zz.Observe("authcode.url", fmt.Sprint(u, err))
	zz.Observe("httperror", HTTPError{Code: 403, Message: "nope"}.Error())
}
