package auth

import (
	"net/http"
	"strings"
)

func contains(s, sub string) bool { return strings.Contains(s, sub) }

type cookieT = http.Cookie
