package auth

import (
	"net/http"
	"net/url"
	"strings"
)

type urlT = url.URL

var urlParse = url.Parse

func contains(s, sub string) bool { return strings.Contains(s, sub) }

type cookieT = http.Cookie

// VerifValidSignature exposes the authenticator's signature check to the cross-service
// agreement harness in internal/proxy (overlay only).
func VerifValidSignature(uri, sig, ts, secret string) bool { return validSignature(uri, sig, ts, secret) }

// VerifValidRedirectURI exposes the domain check likewise.
func VerifValidRedirectURI(uri string, roots []string) bool { return validRedirectURI(uri, roots) }

func mustParse(s string) *urlT {
	u, err := urlParse(s)
	if err != nil {
		panic(err)
	}
	return u
}
