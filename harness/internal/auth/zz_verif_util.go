package auth

import (
	"net/http"
	"strings"
)

func contains(s, sub string) bool { return strings.Contains(s, sub) }

type cookieT = http.Cookie

// VerifValidSignature exposes the authenticator's signature check to the cross-service
// agreement harness in internal/proxy (overlay only).
func VerifValidSignature(uri, sig, ts, secret string) bool { return validSignature(uri, sig, ts, secret) }

// VerifValidRedirectURI exposes the domain check likewise.
func VerifValidRedirectURI(uri string, roots []string) bool { return validRedirectURI(uri, roots) }
