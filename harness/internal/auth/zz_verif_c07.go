package auth

import (
	"crypto/hmac"
	"crypto/sha256"
	"encoding/base64"
	"fmt"
	"net/url"
	"strconv"
	"strings"
	"time"

	"github.com/buzzfeed/sso/internal/pkg/validators"
	zz "github.com/buzzfeed/sso/internal/zzverif"
)

func init() {
	VerifHarnesses["VerifC07SignInOut"] = VerifC07SignInOut
	VerifHarnesses["VerifC07Start"] = VerifC07Start
	VerifHarnesses["VerifC07Callback"] = VerifC07Callback
	VerifHarnesses["VerifC07DomainLemma"] = VerifC07DomainLemma
}

// verifSign is what a proxy holding the client secret computes (same construction as
// SSOProvider.signRedirectURL): base64url(HMAC-SHA256(secret, uri || decimal(ts))).
func verifSign(secret, uri string, ts int64) string {
	h := hmac.New(sha256.New, []byte(secret))
	h.Write([]byte(uri))
	h.Write([]byte(fmt.Sprint(ts)))
	return base64.URLEncoding.EncodeToString(h.Sum(nil))
}

// verifInDomain: the specification of "host is the root domain or a subdomain of it".
func verifInDomain(hostname, rootWithDot string) bool {
	bare := strings.TrimPrefix(rootWithDot, ".")
	return zz.Or(hostname == bare, strings.HasSuffix(hostname, rootWithDot))
}

type verifTriple struct {
	URI, Sig, TS string
	Genuine      bool
	Host         string // host component the URI was built from ("" if the URI is an arbitrary string)
}

// verifRedirectTriple draws (redirect_uri, sig, ts): a genuinely signed fresh-or-stale pair, or
// anything an adversary who knows that genuine pair (but not the secret) can send.
func verifRedirectTriple(label, secret string) (t verifTriple, genuineURI string, genuineTS int64) {
	gHost := zz.NondetString(label + ".genuine.host")
	zz.Assume(verifHostOK(gHost))
	genuineURI = zz.MakeURL("https", gHost, "/oauth2/callback", "")
	// timestamps are drawn as ages relative to the clock (so that a replay runs at the real time)
	nowSec := time.Now().Unix()
	gAge := zz.NondetInt64(label + ".genuine.age.seconds")
	zz.Assume(zz.And(gAge > -(1<<31), gAge < 1<<31))
	genuineTS = nowSec - gAge
	gSig := verifSign(secret, genuineURI, genuineTS)
	if zz.NondetBool(label + ".genuine") {
		return verifTriple{URI: genuineURI, Sig: gSig, TS: strconv.FormatInt(genuineTS, 10), Genuine: true, Host: gHost}, genuineURI, genuineTS
	}
	if zz.NondetBool(label + ".uri.from.components") {
		t.Host = zz.NondetString(label + ".host")
		zz.Assume(verifHostOK(t.Host))
		scheme := []string{"https", "http", "javascript"}[zz.Choose(label+".scheme", 3)]
		t.URI = zz.MakeURL(scheme, t.Host, zz.NondetString(label+".path"), "")
	} else {
		t.URI = zz.NondetString(label + ".uri")
	}
	if zz.NondetBool(label + ".ts.is.decimal") {
		age := zz.NondetInt64(label + ".ts.age.seconds")
		zz.Assume(zz.And(age > -(1<<31), age < 1<<31))
		t.TS = strconv.FormatInt(nowSec-age, 10)
	} else {
		// any other spelling: not a canonical decimal, does not parse (leading '+', zeros, junk ...)
		t.TS = zz.NondetString(label + ".ts")
		_, err := strconv.ParseInt(t.TS, 10, 64)
		zz.Assume(err != nil)
	}
	if zz.NondetBool(label + ".reuses.genuine.sig") {
		t.Sig = gSig
	} else {
		// unforgeability: without the secret the adversary cannot produce (the encoding of) any
		// value in the image of HMAC(secret, .)
		t.Sig = zz.NondetString(label + ".sig")
		if raw, err := base64.URLEncoding.DecodeString(t.Sig); err == nil {
			zz.Assume(!zz.MacImage(secret, string(raw)))
		}
	}
	return t, genuineURI, genuineTS
}

func verifHostOK(h string) bool {
	return zz.And(h != "", !contains(h, "/"), !contains(h, "?"), !contains(h, "#"), !contains(h, "@"), !contains(h, ":"), !contains(h, " "), !contains(h, "%"), !contains(h, "["))
}

// verifRootDomain: a configured root domain as NewAuthenticator normalises it (one leading dot).
// (The domain-matching semantics over arbitrary domains and hosts is VerifC07DomainLemma's job;
// the route harnesses use one concrete root domain.)
func verifRootDomain() string { return ".sso.test" }

// VerifC07SignInOut: /sign_in and /sign_out through the real route table.
func VerifC07SignInOut() {
	zz.ClockMaxAdvance(time.Second)
	root := verifRootDomain()
	env := verifNewAuth([]validators.Validator{validators.NewEmailDomainValidator([]string{"*"})}, []string{root})
	tr, gURI, gTS := verifRedirectTriple("redirect", verifClientSecret)
	route := []string{"/sign_in", "/sign_out"}[zz.Choose("route", 2)]
	method := []string{"GET", "POST"}[zz.Choose("method", 2)]
	req := zz.NewRequest(method, verifAuthHost, route, "")
	q := url.Values{}
	q.Set("redirect_uri", tr.URI)
	q.Set("sig", tr.Sig)
	q.Set("ts", tr.TS)
	q.Set("client_id", zz.NondetString("client_id"))
	q.Set("state", zz.NondetString("state"))
	var body url.Values
	if method == "POST" && zz.NondetBool("post.body.overrides") {
		// a POST body value takes precedence over the query value in req.Form
		body = url.Values{}
		if zz.NondetBool("body.uri.from.components") {
			bh := zz.NondetString("body.host")
			zz.Assume(verifHostOK(bh))
			body.Set("redirect_uri", zz.MakeURL("https", bh, "/", ""))
		} else {
			body.Set("redirect_uri", zz.NondetString("body.redirect_uri"))
		}
	}
	zz.SetForm(req, q, body, false)
	effURI := tr.URI
	if body != nil {
		effURI = body.Get("redirect_uri")
	}
	// the visitor: no cookie, or a fresh valid authenticator session
	hasSession := zz.NondetBool("has.session")
	if hasSession {
		s := verifAuthSession("sess")
		far := time.Now().Add(24 * time.Hour)
		s.LifetimeDeadline, s.RefreshDeadline = far, far
		verifSetCookie(req, verifAuthCookie, env.Cookies.Preload("cookie", s))
	}
	now := time.Now()
	rec := zz.NewRecorder()
	env.A.ServeMux.ServeHTTP(rec, req)

	loc := rec.H.Get("Location")
	st := rec.Status()
	redirected := st == 302
	pu, perr := url.Parse(effURI)
	hostname := ""
	if perr == nil && pu != nil {
		hostname = pu.Hostname()
	}
	acted := zz.Or(redirected, env.Provider.RevokeCalls > 0, env.Codes.Marshals > 0)
	// --- gate: only a signed, fresh, in-domain URI gets past the middleware ---
	if i, err := strconv.ParseInt(tr.TS, 10, 64); err == nil {
		sameData := effURI+fmt.Sprint(time.Unix(i, 0).Unix()) == gURI+fmt.Sprint(gTS)
		fresh := !now.After(time.Unix(i, 0).Add(5*time.Minute + time.Second)) // the clock may advance up to a second inside the harness
		zz.Assert(zz.Implies(acted, zz.And(sameData, fresh)), "C07.acts only for a redirect URI signed with the client secret and a timestamp not older than five minutes")
	} else {
		zz.Assert(!acted, "C07.an unparsable timestamp never passes")
	}
	zz.Assert(zz.Implies(acted, zz.And(perr == nil, effURI != "", verifInDomain(hostname, root))), "C07.acts only for a redirect URI whose host is a root domain or a subdomain of one")
	zz.Assert(zz.Implies(!acted, zz.Or(st == 400, st == 401, st == 403, st == 405, st == 500, st == 200)), "C07.otherwise an error page or the sign-in/sign-out page")
	// --- the string that was validated is the string that is used ---
	if redirected && route == "/sign_out" {
		zz.Reach("signout-redirect")
		zz.Assert(loc == effURI, "C07.sign-out redirects to exactly the validated redirect_uri")
	}
	if redirected && route == "/sign_in" {
		zz.Reach("code-redirect")
		lu, lerr := url.Parse(loc)
		zz.Assert(lerr == nil, "C07.code redirect is a URL")
		if lerr == nil && perr == nil {
			zz.Assert(zz.And(lu.Host == pu.Host, lu.Path == pu.Path, lu.Scheme == "https"), "C07.code redirect keeps the validated host and path and forces the configured scheme")
		}
		zz.Assert(env.Codes.Marshals == 1, "C07.exactly one code sealed")
	}
	zz.ReachIf(zz.And(!acted, st == 400), "rejected-400")
}

// VerifC07DomainLemma: validRedirectURI on bounded byte strings == "host equals the root domain
// or ends with '.'+root domain" (no look-alike suffix), for the normalised (leading-dot) domain.
func VerifC07DomainLemma() {
	host := zz.NondetChars("host", zz.Bound("c07HostLen", 6))
	dom := zz.NondetChars("domain", zz.Bound("c07DomLen", 3))
	zz.Assume(len(host) > 0 && len(dom) > 0)
	for i := 0; i < len(host); i++ {
		zz.Assume(zz.And(host[i] != '/', host[i] != '?', host[i] != '#', host[i] != '@', host[i] != ':', host[i] != '%', host[i] != '[', host[i] != ']', host[i] > ' '))
	}
	for i := 0; i < len(dom); i++ {
		zz.Assume(dom[i] != '.' || i > 0)
	}
	zz.Assume(dom[0] != '.')
	uri := zz.MakeURL("https", host, "/", "")
	got := validRedirectURI(uri, []string{"." + dom})
	want := host == dom
	if len(host) > len(dom) {
		want = zz.And(host[len(host)-len(dom):] == dom, host[len(host)-len(dom)-1] == '.')
	}
	zz.ReachIf(got, "in-domain")
	zz.ReachIf(!got, "out-of-domain")
	zz.Assert(got == want, "C07.validRedirectURI accepts exactly the root domain and its subdomains")
}

// VerifC07Start: /start validates the outer and the nested redirect and the nested signature.
func VerifC07Start() {
	zz.ClockMaxAdvance(time.Second)
	root := verifRootDomain()
	env := verifNewAuth([]validators.Validator{validators.NewEmailDomainValidator([]string{"*"})}, []string{root})
	// nested: the proxy's callback URI with sig and ts; outer: the authenticator's own /sign_in URL carrying them
	tr, gURI, gTS := verifRedirectTriple("nested", verifClientSecret)
	inner := url.Values{}
	inner.Set("redirect_uri", tr.URI)
	inner.Set("sig", tr.Sig)
	inner.Set("ts", tr.TS)
	outerHost := zz.NondetString("outer.host")
	zz.Assume(verifHostOK(outerHost))
	outer := zz.MakeURL("https", outerHost, "/sign_in", zz.MakeQuery(inner))
	req := zz.NewRequest("GET", verifAuthHost, "/start", "")
	oq := url.Values{}
	oq.Set("redirect_uri", outer)
	req.URL.RawQuery = zz.MakeQuery(oq)
	now := time.Now()
	rec := zz.NewRecorder()
	env.A.ServeMux.ServeHTTP(rec, req)
	started := rec.Status() == 302
	zz.ReachIf(started, "idp-login-started")
	zz.ReachIf(!started, "start-rejected")
	pu, perr := url.Parse(tr.URI)
	hostname := ""
	if perr == nil && pu != nil {
		hostname = pu.Hostname()
	}
	if i, err := strconv.ParseInt(tr.TS, 10, 64); err == nil {
		norm := tr.URI
		if perr == nil && pu != nil {
			norm = pu.String() // the authenticator authenticates the re-serialised nested URL
		}
		sameData := norm+fmt.Sprint(time.Unix(i, 0).Unix()) == gURI+fmt.Sprint(gTS)
		fresh := !now.After(time.Unix(i, 0).Add(5*time.Minute + time.Second))
		zz.Assert(zz.Implies(started, zz.And(sameData, fresh)), "C07.identity-provider login starts only for a signed, fresh nested redirect")
	} else {
		zz.Assert(!started, "C07.start: an unparsable timestamp never passes")
	}
	zz.Assert(zz.Implies(started, zz.And(verifInDomain(outerHost, root), perr == nil, verifInDomain(hostname, root))), "C07.start: outer and nested redirect hosts are in the root domains")
	zz.Assert(zz.Implies(!started, rec.Status() == 400), "C07.start: otherwise 400")
	if started {
		zz.Assert(env.Provider.SignInRedirect == "https://"+verifAuthHost+"/callback", "C07.start: the provider is given the authenticator's own callback")
		nonce := ""
		for _, c := range rec.SetCookies() {
			if c.Name == verifAuthCookie+"_csrf" {
				nonce = c.Value
			}
		}
		zz.Assert(nonce != "", "C07.start: a CSRF nonce cookie is set")
		zz.Assert(env.Provider.SignInState == base64.URLEncoding.EncodeToString([]byte(nonce+":"+outer)), "C07.start: state is base64(nonce:validated outer redirect)")
	}
}

// VerifC07Callback: the redirect recovered from `state` is re-validated before it is used.
func VerifC07Callback() {
	zz.ClockMaxAdvance(time.Second)
	root := verifRootDomain()
	env := verifNewAuth([]validators.Validator{validators.NewEmailDomainValidator([]string{"*"})}, []string{root})
	nonce := zz.NondetString("nonce")
	zz.Assume(!contains(nonce, ":")) // any colon-free string, the empty one included
	var redirect string
	rHost := ""
	if zz.NondetBool("redirect.from.components") {
		rHost = zz.NondetString("redirect.host")
		zz.Assume(verifHostOK(rHost))
		redirect = zz.MakeURL("https", rHost, "/sign_in", "")
	} else {
		redirect = zz.NondetString("redirect")
	}
	state := base64.URLEncoding.EncodeToString([]byte(nonce + ":" + redirect))
	req := zz.NewRequest("GET", verifAuthHost, "/callback", "")
	q := url.Values{}
	q.Set("state", state)
	q.Set("code", zz.NondetString("code"))
	zz.SetForm(req, q, nil, false)
	if zz.NondetBool("csrf.present") {
		cv := zz.NondetString("csrf.value")
		zz.Assume(verifCookieOK(cv))
		verifSetCookie(req, verifAuthCookie+"_csrf", cv)
	}
	rec := zz.NewRecorder()
	env.A.ServeMux.ServeHTTP(rec, req)
	redirected := rec.Status() == 302
	zz.ReachIf(redirected, "callback-redirect")
	pu, perr := url.Parse(redirect)
	hostname := ""
	if perr == nil && pu != nil {
		hostname = pu.Hostname()
	}
	zz.Assert(zz.Implies(redirected, zz.And(rec.H.Get("Location") == redirect, perr == nil, verifInDomain(hostname, root))), "C07.callback redirects only to the in-domain redirect recovered from state, verbatim")
	zz.Assert(zz.Implies(!redirected, zz.Or(rec.Status() == 400, rec.Status() == 403, rec.Status() == 500, rec.Status() == 401, rec.Status() == 429, rec.Status() == 503)), "C07.callback: otherwise an error page")
}
