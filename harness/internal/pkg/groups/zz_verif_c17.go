package groups

import (
	"errors"
	"time"

	zz "github.com/buzzfeed/sso/internal/zzverif"
)

var VerifHarnesses = map[string]func(){
	"VerifC17FillUpdate": VerifC17FillUpdate,
	"VerifC17RefreshLoop": VerifC17RefreshLoop,
	"VerifC17FillUpdate3": VerifC17FillUpdate3,
	"VerifC17RefreshLoopRace": VerifC17RefreshLoopRace,
	"VerifC17SlowFill": VerifC17SlowFill,
}

// VerifC17FillUpdate3: three concurrent Update callers on one group (a caller that backs off
// while a fill runs must not let a third caller start a second concurrent fill).
func VerifC17FillUpdate3() {
	v := &verifFill{running: map[string]int{}, lastOK: map[string]int{}, outcome: map[int]int{}}
	c := NewFillCache(v.fn, time.Minute)
	for i := 0; i < 3; i++ {
		zz.Go("updater", func() { c.Update("g0") })
	}
	out := zz.RunSchedule(zz.Bound("c17Steps3", 16))
	zz.Assert(out != "deadlock", "C17.no deadlock among three updaters")
	if out == "done" {
		zz.Reach("three-updates-finished")
		zz.Assert(len(c.inflight) == 0, "C17.no fill is left marked in flight (three callers)")
	}
}

var errVerifDirectory = errors.New("directory unavailable")

type verifFill struct {
	running  map[string]int
	fills    int
	lastOK   map[string]int // sequence number of the member list last returned successfully per group
	outcome  map[int]int    // per fill: 0 = members, 1 = error, 2 = not found
	maxRun   int
}

func (v *verifFill) fn(group string) (MemberSet, error) {
	v.running[group]++
	zz.Assert(v.running[group] == 1, "C17.at most one fill per group runs at a time")
	v.fills++
	me := v.fills
	zz.Yield() // the directory call takes time
	v.running[group]--
	o := zz.Choose("fill.outcome", 3)
	v.outcome[me] = o
	switch o {
	case 1:
		return nil, errVerifDirectory
	case 2:
		return nil, ErrGroupNotFound
	}
	v.lastOK[group] = me
	return MemberSet{memberName(me): {}}, nil
}

func memberName(n int) string { return "member-of-fill-" + string(rune('0'+n)) }

// VerifC17FillUpdate: concurrent FillCache.Update callers on one or two groups under every
// interleaving, starting from a cache that may already hold a member list.
func VerifC17FillUpdate() {
	v := &verifFill{running: map[string]int{}, lastOK: map[string]int{}, outcome: map[int]int{}}
	period := time.Minute
	if zz.NondetBool("short.refresh.period") {
		period = time.Nanosecond // any timer derived from the refresh period is due at once
	}
	c := NewFillCache(v.fn, period)
	groupsOf := []string{"g0", "g0"}
	if zz.NondetBool("second.caller.other.group") {
		groupsOf[1] = "g1"
	}
	prefilled := zz.NondetBool("prefilled")
	if prefilled {
		c.cache["g0"] = MemberSet{"old-member": {}}
	}
	var updated [2]bool
	var done [2]bool
	for i := 0; i < 2; i++ {
		i := i
		zz.Go("updater", func() {
			updated[i] = c.Update(groupsOf[i])
			done[i] = true
		})
	}
	if zz.RunSchedule(zz.Bound("c17Steps", 14)) != "done" {
		zz.Reach("budget")
		return
	}
	zz.Reach("updates-finished")
	zz.Assert(done[0] && done[1], "C17.both updates return")
	zz.Assert(len(c.inflight) == 0, "C17.no fill is left marked in flight")
	// final cache content per group = what the directory said last
	for _, g := range []string{"g0", "g1"} {
		ms, found := c.Get(g)
		// replay the fills of this group in completion order is not observable; instead check the
		// three documented effects on the final state
		okSeq := v.lastOK[g]
		if okSeq > 0 && found {
			_, has := ms[memberName(okSeq)]
			_, hasOld := ms["old-member"]
			zz.Assert(has || (g == "g0" && hasOld) || len(ms) == 1, "C17.cache holds a list the directory returned")
		}
	}
	// single caller semantics (the other caller on another group, or backed off)
	if v.fills == 1 {
		zz.Reach("one-fill")
		ms, found := c.Get("g0")
		switch v.outcome[1] {
		case 0:
			if groupsOf[0] == "g0" || groupsOf[1] == "g0" {
				_, has := ms[memberName(1)]
				zz.Assert(zz.Implies(v.lastOK["g0"] == 1, found && has && len(ms) == 1), "C17.a successful fill replaces the member list with the latest one")
			}
		case 1:
			_, hasOld := ms["old-member"]
			zz.Assert(zz.Implies(prefilled, found && hasOld), "C17.a failed fill keeps the previous list")
		case 2:
			zz.Assert(!found || groupsOf[0] != "g0", "C17.a group the directory reports missing is dropped")
		}
		zz.Assert(updated[0] != updated[1] || !updated[0], "C17.only the caller whose fill ran and succeeded reports an update")
	}
	if v.fills == 2 && groupsOf[1] == "g0" {
		zz.Reach("two-sequential-fills-same-group")
	}
}

// VerifC17RefreshLoop: RefreshLoop starts at most one loop per group, the loop fills immediately
// and on ticks, and Stop lets every loop exit and clean up.
func VerifC17RefreshLoop() {
	v := &verifFill{running: map[string]int{}, lastOK: map[string]int{}, outcome: map[int]int{}}
	c := NewFillCache(v.fn, time.Minute)
	c.maxJitter = 1
	first := c.RefreshLoop("g0")
	second := c.RefreshLoop("g0")
	zz.Assert(first && !second, "C17.at most one refresh loop per group exists")
	stop := zz.NondetBool("stop.early")
	if stop {
		c.Stop()
	}
	out := zz.RunSchedule(zz.Bound("c17LoopSteps", 16))
	if !stop {
		// without Stop the loops wait for ticks forever: the schedule ends with both blocked
		zz.Reach("loops-idle")
		zz.Assert(out != "done", "C17.loops keep running until stopped")
		zz.Assert(len(c.refreshLoopGroups) == 1, "C17.a running loop stays registered")
		zz.Assert(v.fills >= 1 || out == "budget", "C17.the loop fills immediately")
		zz.Assert(!c.RefreshLoop("g0"), "C17.no second loop while one is registered")
		return
	}
	if out == "done" {
		zz.Reach("loops-stopped")
		zz.Assert(len(c.refreshLoopGroups) == 0, "C17.stopped loops unregister themselves")
	}
	zz.Assert(out != "deadlock", "C17.Stop lets every loop exit")
}


// VerifC17RefreshLoopRace: two callers ask for a refresh loop of the same group at the same
// time (a cold start): under every interleaving exactly one of them starts a loop.
func VerifC17RefreshLoopRace() {
	v := &verifFill{running: map[string]int{}, lastOK: map[string]int{}, outcome: map[int]int{}}
	c := NewFillCache(v.fn, time.Minute)
	c.maxJitter = 200 * time.Microsecond // natively: the window between the check and the registration
	var started [2]bool
	var done [2]bool
	for i := 0; i < 2; i++ {
		i := i
		zz.Go("starter", func() {
			started[i] = c.RefreshLoop("g0")
			done[i] = true
		})
	}
	zz.RunSchedule(zz.Bound("c17RaceSteps", 16))
	if done[0] && done[1] {
		zz.Reach("both-callers-returned")
		zz.Assert(started[0] != started[1], "C17.of two concurrent requests for one group's refresh loop exactly one starts a loop")
		zz.Assert(len(c.refreshLoopGroups) == 1, "C17.one loop is registered after two concurrent requests")
	}
}

// VerifC17SlowFill: a cache with a very short refresh period (every timer derived from it is due
// at once) and a directory call that takes long: a second caller that arrives while the first
// fill is still running must not start another one.
func VerifC17SlowFill() {
	v := &verifFill{running: map[string]int{}, lastOK: map[string]int{}, outcome: map[int]int{}}
	c := NewFillCache(v.fn, time.Nanosecond)
	for i := 0; i < 2; i++ {
		zz.Go("updater", func() { c.Update("g0") })
	}
	out := zz.RunSchedule(zz.Bound("c17SlowSteps", 12))
	zz.Assert(out != "deadlock", "C17.no deadlock with a slow directory call")
	if out == "done" {
		zz.Reach("slow-fill-finished")
		zz.Assert(len(c.inflight) == 0, "C17.no fill is left marked in flight (slow directory call)")
	}
}
