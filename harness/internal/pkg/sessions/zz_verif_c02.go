package sessions

// C02 harnesses: the REAL aead.MiscreantCipher framing (Encrypt / Decrypt / Marshal /
// Unmarshal) and MarshalSession / UnmarshalSession are executed from their source; only
// miscreant's AES-SIV is replaced, by the ideal AEAD of zzverif/models_siv.go.

import (
	"net/http"
	"strings"
	"time"

	"github.com/buzzfeed/sso/internal/pkg/aead"
	zz "github.com/buzzfeed/sso/internal/zzverif"
)

var VerifHarnesses = map[string]func(){
	"VerifC02RoundTrip": VerifC02RoundTrip,
	"VerifC02Bytes":     VerifC02Bytes,
	"VerifC02Strings":   VerifC02Strings,
	"VerifC02Spellings": VerifC02Spellings,
	"VerifC02CookieVerbatim": VerifC02CookieVerbatim,
	"VerifC02LongValues": VerifC02LongValues,
	"VerifC02SessionSpellings": VerifC02SessionSpellings,
	"VerifC02SpareBits": VerifC02SpareBits,
}

func verifRealFraming() {
	zz.NoModel("aead_NewMiscreantCipher", "aead_MiscreantCipher_Marshal", "aead_MiscreantCipher_Unmarshal")
	zz.FaultyEntropy()
}

// verifKey draws an arbitrary 32-byte secret.
func verifKey(label string) string {
	k := zz.NondetString(label)
	zz.Assume(len(k) == 32)
	return k
}

func verifCipher(key string) *aead.MiscreantCipher {
	c, err := aead.NewMiscreantCipher([]byte(key))
	zz.Assert(err == nil && c != nil, "C02.a 32-byte secret gives a cipher")
	if err != nil {
		panic("no cipher")
	}
	return c
}

func verifAnySession(label string, nGroups int) *SessionState {
	s := &SessionState{ProviderSlug: zz.NondetString(label + ".slug"), ProviderType: zz.NondetString(label + ".type"), AccessToken: zz.NondetString(label + ".access"),
		RefreshToken: zz.NondetString(label + ".refresh"), Email: zz.NondetString(label + ".email"), User: zz.NondetString(label + ".user"),
		AuthorizedUpstream: zz.NondetString(label + ".upstream")}
	s.RefreshDeadline, s.LifetimeDeadline = zz.NondetTime(label+".refreshDeadline"), zz.NondetTime(label+".lifetimeDeadline")
	s.ValidDeadline, s.GracePeriodStart = zz.NondetTime(label+".validDeadline"), zz.NondetTime(label+".graceStart")
	for i := 0; i < nGroups; i++ {
		s.Groups = append(s.Groups, zz.NondetString(label+".group"))
	}
	return s
}

func verifSameSession(a, b *SessionState) bool {
	if a == nil || b == nil || len(a.Groups) != len(b.Groups) {
		return false
	}
	same := zz.And(a.ProviderSlug == b.ProviderSlug, a.ProviderType == b.ProviderType, a.AccessToken == b.AccessToken, a.RefreshToken == b.RefreshToken,
		a.Email == b.Email, a.User == b.User, a.AuthorizedUpstream == b.AuthorizedUpstream,
		a.RefreshDeadline.Equal(b.RefreshDeadline), a.LifetimeDeadline.Equal(b.LifetimeDeadline), a.ValidDeadline.Equal(b.ValidDeadline), a.GracePeriodStart.Equal(b.GracePeriodStart))
	for i := range a.Groups {
		same = zz.And(same, a.Groups[i] == b.Groups[i])
	}
	return same
}

// VerifC02RoundTrip: sealing then opening returns exactly the original session; sealing the
// same value twice gives different strings; another secret does not open it.
func VerifC02RoundTrip() {
	verifRealFraming()
	k1, k2 := verifKey("key1"), verifKey("key2")
	zz.Assume(k1 != k2)
	c1, c2 := verifCipher(k1), verifCipher(k2)
	s := verifAnySession("sess", zz.Choose("groups", 3))
	sealed, err := MarshalSession(s, c1)
	zz.Assert(zz.And(err == nil, sealed != ""), "C02.sealing a session succeeds")
	out, err := UnmarshalSession(sealed, c1)
	zz.Assert(err == nil, "C02.a sealed session opens under the same secret")
	if err == nil {
		zz.Reach("opened")
		zz.Assert(verifSameSession(s, out), "C02.sealing then opening returns exactly the original session")
	}
	again, err2 := MarshalSession(s, c1)
	zz.Assert(zz.And(err2 == nil, again != sealed), "C02.sealing the same value twice gives different strings")
	other, err3 := UnmarshalSession(sealed, c2)
	zz.Assert(zz.And(err3 != nil, other == nil), "C02.a value sealed under one secret is rejected under another and yields no data")
	viaOther, _ := MarshalSession(s, c2)
	zz.Assert(viaOther != sealed, "C02.different secrets give different sealed strings")
}

// VerifC02Bytes: the byte-level framing. Two values sealed by this cipher and one sealed
// under another secret exist; ANY byte string presented to Decrypt opens only if it is
// byte-for-byte one of this cipher's sealed values, and then to exactly its plaintext -
// truncations, extensions, bit flips, splices of nonce and ciphertext from different values,
// values of the other secret and everything else are rejected with an error and no data.
func VerifC02Bytes() {
	verifRealFraming()
	k1, k2 := verifKey("key1"), verifKey("key2")
	zz.Assume(k1 != k2)
	c1, c2 := verifCipher(k1), verifCipher(k2)
	p1, p2, p3 := zz.NondetString("plain1"), zz.NondetString("plain2"), zz.NondetString("plain3")
	j1, e1 := c1.Encrypt([]byte(p1))
	j2, e2 := c1.Encrypt([]byte(p2))
	j3, e3 := c2.Encrypt([]byte(p3))
	zz.Assert(zz.And(e1 == nil, e2 == nil, e3 == nil), "C02.encryption succeeds")
	s1, s2, s3 := string(j1), string(j2), string(j3)
	zz.Assert(zz.And(s1 != s2, len(s1) == len(p1)+32), "C02.sealed bytes are fresh per call and carry tag and nonce")
	x := zz.NondetString("presented")
	pt, err := c1.Decrypt([]byte(x))
	if err == nil {
		zz.Reach("opened")
		zz.Assert(zz.Or(zz.And(x == s1, string(pt) == p1), zz.And(x == s2, string(pt) == p2)), "C02.only this cipher's own sealed bytes open, to exactly their plaintext")
	} else {
		zz.Reach("rejected")
		zz.Assert(len(pt) == 0, "C02.a rejected value yields no data")
		zz.Assert(zz.And(x != s1, x != s2), "C02.every genuine sealed value opens")
	}
	zz.ReachIf(x == s3, "other-secret-presented")
}

type verifState struct {
	SessionID   string `json:"session_id"`
	RedirectURI string `json:"redirect_uri"`
}

// VerifC02Strings: the string level (what travels in cookies, state parameters and codes):
// ANY string presented to Unmarshal opens only if it is exactly a string this cipher's
// Marshal produced, and then to exactly the sealed value.
func VerifC02Strings() {
	verifRealFraming()
	c1 := verifCipher(verifKey("key1"))
	v1 := &verifState{SessionID: zz.NondetString("state1.id"), RedirectURI: zz.NondetString("state1.uri")}
	v2 := &verifState{SessionID: zz.NondetString("state2.id"), RedirectURI: zz.NondetString("state2.uri")}
	t1, e1 := c1.Marshal(v1)
	t2, e2 := c1.Marshal(v2)
	zz.Assert(zz.And(e1 == nil, e2 == nil, t1 != t2), "C02.sealing succeeds and is fresh per call")
	x := zz.NondetString("presented")
	out := &verifState{}
	err := c1.Unmarshal(x, out)
	if err == nil {
		zz.Reach("opened")
		zz.Assert(zz.Or(zz.And(x == t1, *out == *v1), zz.And(x == t2, *out == *v2)), "C02.only a string sealed by this cipher opens, to exactly the sealed value")
	} else {
		zz.Reach("rejected")
		zz.Assert(zz.And(x != t1, x != t2), "C02.every genuine sealed string opens")
		zz.Assert(*out == verifState{}, "C02.a rejected string yields no data")
	}
}

// VerifC02Spellings: re-encodings of a genuine sealed string - the same base64 with CR/LF
// added around it - are other strings and must be rejected.
func VerifC02Spellings() {
	verifRealFraming()
	c1 := verifCipher(verifKey("key1"))
	v1 := &verifState{SessionID: zz.NondetString("state1.id"), RedirectURI: zz.NondetString("state1.uri")}
	t1, e1 := c1.Marshal(v1)
	zz.Assert(e1 == nil, "C02.sealing succeeds")
	x := t1
	switch zz.Choose("respelling", 6) {
	case 4:
		x = t1 + "=" // base64 padding added
	case 5:
		x = t1 + "=="
	case 0:
		x = t1 + "\n"
	case 1:
		x = "\r\n" + t1
	case 2:
		x = "\n" + t1 + "\r"
	case 3:
		zz.Reach("unchanged")
	}
	out := &verifState{}
	err := c1.Unmarshal(x, out)
	zz.ReachIf(x != t1, "respelled")
	zz.Assert(zz.Or(x == t1, err != nil), "C02.a re-spelled copy of a sealed string (CR/LF or padding added) is rejected")
	zz.Assert(zz.Implies(x == t1, zz.And(err == nil, *out == *v1)), "C02.the sealed string itself opens")
}

var _ = time.Second

// ---- the cookie store hands the cookie's value to the cipher verbatim ----

type verifSpyCipher struct {
	Seen []string
	Open bool
}

func (s *verifSpyCipher) Encrypt(b []byte) ([]byte, error)        { return b, nil }
func (s *verifSpyCipher) Decrypt(b []byte) ([]byte, error)        { return b, nil }
func (s *verifSpyCipher) Marshal(v interface{}) (string, error)  { return "sealed", nil }
func (s *verifSpyCipher) Unmarshal(v string, out interface{}) error {
	s.Seen = append(s.Seen, v)
	if s.Open {
		return nil
	}
	return ErrInvalidSession
}

// VerifC02CookieVerbatim: whatever string arrives as the session cookie's value, LoadSession
// presents exactly that string to the cipher (no decoding, trimming or normalisation that
// would make a second string open like a genuine one), and returns a session only if the
// cipher opened it.
func VerifC02CookieVerbatim() {
	spy := &verifSpyCipher{Open: zz.NondetBool("cipher.opens")}
	store := &CookieStore{Name: "_sso_proxy", CSRFCookieName: "_sso_proxy_csrf", CookieCipher: spy, CookieExpire: time.Hour}
	x := zz.NondetString("cookie.value")
	// what net/http's cookie parser passes through unchanged
	zz.Assume(zz.And(x != "", !strings.Contains(x, ";"), !strings.Contains(x, " "), !strings.Contains(x, "\""), !strings.Contains(x, ","), !strings.Contains(x, "\\")))
	req := zz.NewRequest("GET", "app.sso.test", "/", "")
	req.Header.Set("Cookie", zz.CookieLine(&http.Cookie{Name: "_sso_proxy", Value: x}))
	sess, err := store.LoadSession(req)
	zz.Assert(len(spy.Seen) == 1, "C02.LoadSession presents the cookie to the cipher exactly once")
	if len(spy.Seen) == 1 {
		zz.Assert(spy.Seen[0] == x, "C02.LoadSession presents the cookie's value to the cipher verbatim")
	}
	zz.Assert((sess != nil) == (err == nil), "C02.LoadSession returns a session or an error")
	zz.Assert(zz.Implies(!spy.Open, sess == nil), "C02.a cookie the cipher rejects yields no session")
	zz.ReachIf(sess != nil, "loaded")
	zz.ReachIf(sess == nil, "refused")
}

// VerifC02LongValues: the round trip also holds for values far larger than a cookie usually
// is - a session whose group list holds one arbitrary name of 5000..6000 bytes.
func VerifC02LongValues() {
	verifRealFraming()
	c1 := verifCipher(verifKey("key1"))
	s := verifAnySession("sess", 0)
	big := zz.NondetString("sess.long.group")
	zz.Assume(zz.And(len(big) >= 5000, len(big) <= 6000))
	s.Groups = []string{big}
	sealed, err := MarshalSession(s, c1)
	zz.Assert(zz.And(err == nil, sealed != ""), "C02.sealing a large session succeeds")
	out, err := UnmarshalSession(sealed, c1)
	zz.Assert(err == nil, "C02.a large sealed session opens under the same secret")
	if err == nil {
		zz.Reach("opened")
		zz.Assert(verifSameSession(s, out), "C02.sealing then opening a large session returns exactly the original")
	}
}

// VerifC02SessionSpellings: through the sessions API (UnmarshalSession, which cookies and
// authorization codes go through): a genuine sealed session with white space or line breaks
// added around it is another string and is refused, yielding no session.
func VerifC02SessionSpellings() {
	verifRealFraming()
	c1 := verifCipher(verifKey("key1"))
	s := verifAnySession("sess", 0)
	t1, e1 := MarshalSession(s, c1)
	zz.Assert(e1 == nil, "C02.sealing a session succeeds")
	x := t1
	switch zz.Choose("respelling", 6) {
	case 0:
		x = t1 + " "
	case 1:
		x = "\t" + t1
	case 2:
		x = t1 + "\n"
	case 3:
		x = "\r\n" + t1
	case 4:
		x = " " + t1 + " "
	case 5:
		zz.Reach("unchanged")
	}
	out, err := UnmarshalSession(x, c1)
	zz.ReachIf(x != t1, "respelled")
	zz.Assert(zz.Or(x == t1, zz.And(err != nil, out == nil)), "C02.a sealed session with white space or line breaks added is refused and yields no session")
	zz.Assert(zz.Implies(x == t1, zz.And(err == nil, verifSameSession(s, out))), "C02.the sealed session itself opens")
}

// VerifC02SpareBits: a genuine sealed string whose last character is re-spelled in its
// unused low bits (same bytes for a lenient base64 decoder) is another string: refused.
func VerifC02SpareBits() {
	verifRealFraming()
	c1 := verifCipher(verifKey("key1"))
	id := zz.NondetString("state1.id")
	var v1 *verifState
	t1, variant := "", ""
	// natively: lengthen the value until its sealed form has spare bits (length not a multiple of 4)
	for i := 0; i < 8 && variant == ""; i++ {
		v1 = &verifState{SessionID: id + strings.Repeat("x", i), RedirectURI: "/"}
		var err error
		t1, err = c1.Marshal(v1)
		zz.Assert(err == nil, "C02.sealing succeeds")
		variant = zz.B64SpareBitsVariant(t1)
	}
	zz.Assume(variant != "")
	out := &verifState{}
	err := c1.Unmarshal(variant, out)
	zz.Reach("respelled")
	zz.Assert(err != nil, "C02.a sealed string re-spelled in the spare bits of its last character is refused")
	out2 := &verifState{}
	zz.Assert(zz.And(c1.Unmarshal(t1, out2) == nil, *out2 == *v1), "C02.the sealed string itself opens")
}
