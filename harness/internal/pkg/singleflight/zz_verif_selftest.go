package singleflight

import (
	zz "github.com/buzzfeed/sso/internal/zzverif"
)

func init() { VerifHarnesses["VerifSelftestGo"] = VerifSelftestGo }

// VerifSelftestGo: the Go-semantics program of the translation validation lives in the
// harness runtime; it is entered from a real package so that `go test` can run it natively.
func VerifSelftestGo() { zz.VerifSelftestGo() }
