package singleflight

import (
	zz "github.com/buzzfeed/sso/internal/zzverif"
)

var VerifHarnesses = map[string]func(){
	"VerifC16Group2": VerifC16Group2,
	"VerifC16Group3": VerifC16Group3,
}

// two callers, every complete schedule
func VerifC16Group2() { verifC16Group(2, zz.Bound("c16Steps2", 12)) }

// three callers (same key, or the last one on another key), schedules up to the step bound
func VerifC16Group3() { verifC16Group(3, zz.Bound("c16Steps3", 13)) }

type verifErr struct{ n int }

func (e *verifErr) Error() string { return "exec failed" }

// VerifC16Group: N callers over K keys under every interleaving (bounded number of
// scheduling steps) of the real Group.Do. Each execution of fn returns a unique value, so
// "which execution did a caller get" is observable.
func verifC16Group(n, budget int) {
	g := &Group{}
	otherKey := zz.NondetBool("last.caller.uses.another.key")
	keys := []string{"k0", "k1"}
	type result struct {
		key       int
		val       int
		hasVal    bool
		count     int
		err       error
		ran       int
		started   int
		returned  int
		finished  bool
	}
	res := make([]*result, n)
	running := [2]int{}
	execs := 0
	tick := 0
	execErr := map[int]error{}
	for i := 0; i < n; i++ {
		r := &result{}
		if otherKey && i == n-1 {
			r.key = 1
		}
		res[i] = r
		zz.Go("caller", func() {
			tick++
			r.started = tick
			v, cnt, err := g.Do(keys[r.key], func() (interface{}, error) {
				running[r.key]++
				zz.Assert(running[r.key] == 1, "C16.at most one execution per key at a time")
				execs++
				me := execs
				r.ran++
				zz.Yield() // the slow work: other callers may arrive now
				running[r.key]--
				if zz.NondetBool("exec.fails") {
					e := &verifErr{me}
					execErr[me] = e
					return me, e
				}
				return me, nil
			})
			tick++
			r.returned = tick
			if iv, ok := v.(int); ok {
				r.val, r.hasVal = iv, true
			}
			r.count, r.err, r.finished = cnt, err, true
		})
	}
	out := zz.RunSchedule(budget)
	if out != "done" {
		zz.Reach("schedule-" + out)
		zz.Assert(out != "deadlock", "C16.no deadlock")
		return
	}
	zz.Reach("all-callers-returned")
	leaders, followers := 0, 0
	for i := 0; i < n; i++ {
		r := res[i]
		zz.Assert(r.finished && r.hasVal, "C16.every caller gets a result")
		zz.Assert(r.ran <= 1, "C16.a caller's function runs at most once")
		if r.ran == 1 {
			leaders++
			// the first caller is told how many joined
			joined := 0
			for j := 0; j < n; j++ {
				if j != i && res[j].ran == 0 && res[j].val == r.val {
					joined++
				}
			}
			zz.Assert(r.count == joined, "C16.the executing caller is told how many joined")
			zz.Assert((r.err != nil) == (execErr[r.val] != nil), "C16.the executing caller gets its own outcome")
		} else {
			followers++
			zz.Reach("a-caller-joined")
			zz.Assert(r.count == 0, "C16.a joined caller reports no duplicates")
			// it received exactly the result of an execution of ITS key
			found := false
			for j := 0; j < n; j++ {
				if res[j].ran == 1 && res[j].val == r.val {
					found = true
					zz.Assert(res[j].key == r.key, "C16.calls with different keys are never merged")
					zz.Assert(r.err == res[j].err, "C16.a joined caller receives the execution's error")
					// joined: the follower started before the leader returned
					zz.Assert(r.started < res[j].returned, "C16.once an execution completed the next call executes afresh")
				}
			}
			zz.Assert(found, "C16.a joined caller receives the value of an actual execution")
		}
	}
	zz.Assert(leaders == execs, "C16.one leader per execution")
	if followers == 0 {
		zz.Reach("no-overlap")
	}
}
