package proxy

import (
	"regexp"
	"net/http"
	"net/url"
	"strings"
	"time"

	"github.com/buzzfeed/sso/internal/pkg/sessions"
	"github.com/buzzfeed/sso/internal/pkg/validators"
	"github.com/buzzfeed/sso/internal/proxy/providers"
	zz "github.com/buzzfeed/sso/internal/zzverif"
)

func init() {
	VerifHarnesses["VerifC13Routing"] = VerifC13Routing
	VerifHarnesses["VerifC18CookieWiring"] = VerifC18CookieWiring
}

// VerifC18CookieWiring: cookie flags as wired from the CookieConfig by the real proxy.New /
// SetCookieStore (one upstream; a visitor without a session gets the sign-in redirect and the
// CSRF cookie).
func VerifC18CookieWiring() {
	zz.ClockMaxAdvance(time.Hour)
	providers.VerifSetTransport(&verifAuth{})
	up := zz.StartUpstreamN(0)
	secure, httpOnly := zz.NondetBool("cookie.secure"), zz.NondetBool("cookie.httponly")
	domain := ""
	if zz.NondetBool("cookie.domain.configured") {
		domain = zz.NondetString("cookie.domain")
		zz.Assume(domain != "")
	}
	uc := &UpstreamConfig{Service: "svc", CookieName: verifCookieName, SkipRequestSigning: true, AllowedEmailDomains: []string{"*"}, ProviderSlug: verifSlug,
		Route: &SimpleRoute{FromURL: &url.URL{Scheme: "https", Host: "app.sso.test"}, ToURL: &url.URL{Scheme: "http", Host: up}}}
	cfg := Configuration{
		ProviderConfig: ProviderConfig{ProviderType: "sso", Scope: "sso", ProviderURLConfig: ProviderURLConfig{External: verifAuthBase}},
		ClientConfig:   ClientConfig{ID: "client-id", Secret: "client-secret"},
		SessionConfig: SessionConfig{CookieConfig: CookieConfig{Name: verifCookieName, Secret: verifSecret, Expire: 168 * time.Hour, Secure: secure, HTTPOnly: httpOnly, Domain: domain},
			TTLConfig: TTLConfig{Lifetime: 720 * time.Hour, Valid: time.Minute, GracePeriod: time.Hour}},
		UpstreamConfigs: UpstreamConfigs{DefaultConfig: DefaultConfig{ProviderSlug: verifSlug}, upstreamConfigs: []*UpstreamConfig{uc}},
	}
	px, err := New(cfg, nil)
	if err != nil {
		panic(err)
	}
	req := zz.NewRequest("GET", "app.sso.test", "/", "")
	req.URL.Scheme = "https"
	rec := zz.NewRecorder()
	px.ServeHTTP(rec, req)
	wantDomain := "app.sso.test"
	if domain != "" {
		wantDomain = domain
	}
	n := 0
	for _, c := range rec.SetCookies() {
		n++
		zz.Assert(zz.And(c.Path == "/", c.Domain == wantDomain, c.HttpOnly == httpOnly, c.Secure == secure), "C18.cookie flags follow the CookieConfig through proxy.New")
	}
	zz.Assert(n >= 1 && rec.Status() == 302, "C18.visitor without session gets the sign-in redirect and a CSRF cookie")
	zz.Reach("csrf-cookie-set")
}

const verifSecret = "a2tra2tra2tra2tra2tra2tra2tra2tra2tra2tra2tra2tra2tra2tra2tra2tra2tra2tra2tra2tra2traw==" // 64 bytes of 'k', base64

// VerifC13Routing: two upstreams built by the real proxy.New (hostmux routes, per-upstream
// OAuthProxy, provider, validators, cookie store, reverse proxy) and one request with a
// symbolic Host carrying a session minted for either upstream.
func VerifC13Routing() {
	zz.ClockMaxAdvance(time.Hour)
	auth := &verifAuth{}
	providers.VerifSetTransport(auth)
	// ports shape: both upstreams are simple routes on ONE host name, distinguished by port only
	ports := zz.NondetBool("shape.same-hostname-different-ports")
	portBase := ""
	if ports {
		portBase = zz.NondetString("shape.hostname")
		zz.Assume(zz.And(portBase != "", !strings.Contains(portBase, ":")))
	}
	var ucs []*UpstreamConfig
	var froms []string
	var isRegex []bool
	var ups []string
	for i := 0; i < 2; i++ {
		up := zz.StartUpstreamN(i)
		ups = append(ups, up)
		uc := &UpstreamConfig{Service: "svc" + string(rune('a'+i)), CookieName: verifCookieName, SkipRequestSigning: true,
			AllowedEmailDomains: verifStrings("up.domain", 1), ProviderSlug: "idp" + string(rune('a'+i))}
		rx := !ports && zz.NondetBool("up.isregex")
		isRegex = append(isRegex, rx)
		if rx {
			// rewrite route whose `to` is a fixed backend (the substitution itself is RewriteDirectorFunc's regexp.ReplaceAllString)
			uc.Route = &RewriteRoute{FromRegex: verifRouteRegex(i), ToTemplate: &url.URL{Scheme: "http", Opaque: up}}
			froms = append(froms, "")
		} else {
			from := ""
			if ports {
				from = zz.HostPort(portBase, []string{"8001", "8002"}[i])
			} else {
				from = zz.NondetString("up.from")
				zz.Assume(zz.And(from != "", !strings.Contains(from, ":")))
			}
			uc.Route = &SimpleRoute{FromURL: &url.URL{Scheme: "https", Host: from}, ToURL: &url.URL{Scheme: "http", Host: up}}
			froms = append(froms, from)
		}
		ucs = append(ucs, uc)
	}
	if !isRegex[0] && !isRegex[1] && !ports {
		zz.Assume(froms[0] != froms[1]) // two simple routes for one host are a configuration error
	}
	cfg := Configuration{
		ProviderConfig: ProviderConfig{ProviderType: "sso", Scope: "sso", ProviderURLConfig: ProviderURLConfig{External: verifAuthBase}},
		ClientConfig:   ClientConfig{ID: "client-id", Secret: "client-secret"},
		SessionConfig: SessionConfig{CookieConfig: CookieConfig{Name: verifCookieName, Secret: verifSecret, Expire: 168 * time.Hour, Secure: false, HTTPOnly: true},
			TTLConfig: TTLConfig{Lifetime: 720 * time.Hour, Valid: time.Minute, GracePeriod: time.Hour}},
		UpstreamConfigs: UpstreamConfigs{DefaultConfig: DefaultConfig{ProviderSlug: "default-idp"}, upstreamConfigs: ucs},
	}
	px, err := New(cfg, nil)
	if err != nil {
		panic(err)
	}
	host := ""
	if ports {
		host = zz.HostPort(portBase, []string{"8001", "8002"}[zz.Choose("req.port", 2)])
	} else {
		host = zz.NondetString("req.host")
		zz.Assume(zz.And(host != "", !strings.Contains(host, ":")))
	}
	req := zz.NewRequest("GET", host, "/", "")
	req.URL.Scheme = "https"
	for i := 0; i < 2; i++ {
		if isRegex[i] {
			// regexp substitution semantics are not encoded: a template without group references is returned as is
			// (only where the pattern matches: on other hosts the substitution is not used, and the
			// native stand-in pattern leaves a non-matching host unchanged)
			if verifRouteRegex(i).MatchString(host) {
				zz.Assume(verifRouteRegex(i).ReplaceAllString(host, ups[i]) == ups[i])
			}
		}
	}
	// expected route: exact static match first, else first matching pattern, else none
	want := -1
	for i := 0; i < 2; i++ {
		if !isRegex[i] && host == froms[i] {
			want = i
			break
		}
	}
	if want < 0 {
		for i := 0; i < 2; i++ {
			if isRegex[i] && verifRouteRegex(i).MatchString(host) {
				want = i
				break
			}
		}
	}
	// a session minted (at the callback) for the host of upstream `minted`, for an arbitrary user
	minted := zz.Choose("session.minted.for", 2)
	mintHost := ""
	if ports {
		mintHost = zz.HostPort(portBase, []string{"8001", "8002"}[zz.Choose("session.port", 2)])
	} else if zz.NondetBool("session.host.case-variant") {
		// the session was minted for a host that differs from the request's only in letter case
		rest := zz.NondetString("req.host.rest")
		zz.Assume(zz.And(host == "h"+rest, !strings.Contains(rest, ":")))
		mintHost = "H" + rest
		zz.Reach("case-variant-host")
	} else {
		mintHost = zz.NondetString("session.host")
	}
	sess := verifSession("sess", 0)
	sess.AuthorizedUpstream = mintHost
	far := time.Now().Add(24 * time.Hour)
	sess.LifetimeDeadline, sess.RefreshDeadline, sess.ValidDeadline = far, far, far
	store, _ := sessions.NewCookieStore(verifCookieName, sessions.CreateMiscreantCookieCipher([]byte(strings.Repeat("k", 64))))
	sealed, _ := store.CookieCipher.Marshal(sess)
	req.Header.Set("Cookie", zz.CookieLine(&http.Cookie{Name: verifCookieName, Value: sealed}))
	_ = minted
	rec := zz.NewRecorder()
	px.ServeHTTP(rec, req)

	calls := [2]int{zz.Upstreams[0].Calls, zz.Upstreams[1].Calls}
	if want < 0 {
		zz.Reach("no-route")
		zz.Assert(rec.Status() == 421, "C13.unmatched Host answers 421")
		zz.Assert(calls[0]+calls[1] == 0, "C13.unmatched Host reaches no backend")
		return
	}
	zz.Reach("routed")
	if isRegex[want] {
		zz.Reach("routed-by-pattern")
	}
	other := 1 - want
	zz.Assert(calls[other] == 0, "C13.the other upstream's backend is never reached")
	zz.Assert(rec.Status() != 421, "C13.matched Host is not misdirected")
	uc := ucs[want]
	if calls[want] > 0 {
		zz.Reach("served")
		// served under the policy, cookie binding and provider of THIS upstream
		zz.Assert(sess.AuthorizedUpstream == host, "C13.session accepted only on the host it was minted for")
		zz.Assert(sess.ProviderSlug == uc.ProviderSlug, "C13.session accepted only for this upstream's provider")
		dv := validators.NewEmailDomainValidator(uc.AllowedEmailDomains)
		zz.Assert(dv.Validate(sess) == nil, "C13.served only if this upstream's own allow rule admits the user")
		zz.Assert(zz.Upstreams[want].Host == ups[want], "C13.backend address is this upstream's `to`")
	} else if rec.Status() == 302 {
		zz.Reach("signin")
		zz.Assert(strings.HasPrefix(rec.H.Get("Location"), verifAuthBase+"/"+uc.ProviderSlug+"/sign_in?"), "C13.sign-in goes to this upstream's provider")
	}
}

func verifRouteRegex(i int) *regexp.Regexp {
	if i == 0 {
		return zz.Regex("route0")
	}
	return zz.Regex("route1")
}
