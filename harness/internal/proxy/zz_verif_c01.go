package proxy

import (
	"net/http"
	"strings"
	"time"

	"github.com/buzzfeed/sso/internal/pkg/sessions"
	zz "github.com/buzzfeed/sso/internal/zzverif"
)

var VerifHarnesses = map[string]func(){}

func init() {
	VerifHarnesses["VerifC01Proxy"] = VerifC01Proxy
	VerifHarnesses["VerifC01Favicon"] = VerifC01Favicon
}

// VerifC01Favicon: the /favicon.ico route (Authenticate, then Proxy).
func VerifC01Favicon() { verifC01(2, 2) }

// VerifC01Proxy: the catch-all route and /oauth2/auth.
func VerifC01Proxy() { verifC01(zz.Choose("entry", 2), zz.Choose("pol.shape", zz.Bound("c01Shapes", 3))) }

func verifPolicyShape(shape int) verifPolicy {
	pol := verifPolicy{}
	switch shape {
	case 0: // all three rule kinds
		pol.Addresses, pol.Domains, pol.Groups = verifStrings("pol.addr", 1), verifStrings("pol.dom", 1), verifStrings("pol.grp", 1)
	case 1: // groups only
		pol.Groups = verifStrings("pol.grp", 1)
	case 2: // domains only
		pol.Domains = verifStrings("pol.dom", 1)
	case 3:
		pol.Addresses = verifStrings("pol.addr", 2)
	case 4:
		pol.Groups = verifStrings("pol.grp", 2)
		pol.Domains = verifStrings("pol.dom", 2)
	case 5: // no rule at all (cannot be configured through SetUpstreamConfigs, but the ladder must still mediate)
	}
	return pol
}

// VerifC01Proxy: complete mediation. One request through Proxy / AuthenticateOnly / Favicon
// with every request field, every cookie content, the clock, every authenticator answer
// and the policy symbolic.
func verifC01(entry, shape int) {
	pol := verifPolicyShape(shape)
	pol.Preflight = zz.NondetBool("pol.preflight")
	pol.Regexes = zz.Choose("pol.regexes", zz.Bound("c01MaxRegexes", 1)+1)
	env := verifNewEnv(pol)
	req := verifRequest()
	method, host, path := req.Method, req.Host, req.URL.Path

	// the cookie: none / a value sealed by this proxy holding an arbitrary session / any other string
	var sess0 sessions.SessionState
	kind := zz.Choose("cookie.kind", 3)
	switch kind {
	case 1:
		sess := verifSession("sess", zz.Choose("sess.ngroups", zz.Bound("c01SessGroups", 1)+1))
		sess0 = verifCopySession(sess)
		sealed := env.Cipher.Preload("cookie", sess)
		zz.Assume(verifCookieValueOK(sealed))
		req.Header.Set("Cookie", zz.CookieLine(&http.Cookie{Name: verifCookieName, Value: sealed}))
	case 2:
		forged := zz.NondetString("cookie.forged")
		zz.Assume(verifCookieValueOK(forged))
		req.Header.Set("Cookie", zz.CookieLine(&http.Cookie{Name: verifCookieName, Value: forged}))
	}
	rec := zz.NewRecorder()
	t0 := time.Now()
	switch entry {
	case 0:
		env.P.Proxy(rec, req)
	case 1:
		env.P.AuthenticateOnly(rec, req)
	case 2:
		env.P.Favicon(rec, req)
	}
	tEnd := time.Now()

	white := env.verifWhitelisted(method, path)
	a := env.Auth
	st := rec.Status()
	reached := env.Reached > 0

	// ---- "authorized session", written independently of the ladder (no branching: zz.And/Or) ----
	gates := false // provider slug, host binding, lifetime
	authOK := false
	if kind == 1 {
		lifetimeOK := !sess0.LifetimeDeadline.Before(t0)
		gates = zz.And(sess0.ProviderSlug == verifSlug, sess0.AuthorizedUpstream == host, lifetimeOK)
		refreshDue := sess0.RefreshDeadline.Before(t0)      // due already when the request arrived
		refreshNotDue := !sess0.RefreshDeadline.Before(tEnd) // not due even when it finished
		validDue := sess0.ValidDeadline.Before(t0)
		// a check that was certainly due must have been made and answered: confirmed, or the
		// outage answers 429/503 (whose own bound is C05's obligation)
		refreshAnswered := zz.And(a.Refresh.Called >= 1, !a.Refresh.NetErr,
			zz.Or(zz.And(a.Refresh.Status == 201, !a.Refresh.BadJSON), a.Refresh.Status == 429, a.Refresh.Status == 503))
		validAnswered := zz.And(a.Validate.Called >= 1, !a.Validate.NetErr,
			zz.Or(a.Validate.Status == 200, a.Validate.Status == 429, a.Validate.Status == 503))
		checksOK := zz.And(zz.Implies(refreshDue, refreshAnswered), zz.Implies(zz.And(refreshNotDue, validDue), validAnswered))
		authOK = zz.And(gates, checksOK)
	}

	switch entry {
	case 0:
		if reached {
			zz.Reach("backend-reached")
			zz.ReachIf(white, "reached-whitelisted")
			zz.ReachIf(authOK, "reached-session")
			zz.Assert(zz.Or(white, authOK), "C01.reached implies skip-auth or authorized session")
			zz.Assert(env.Reached == 1, "C01.backend invoked once")
			zz.Assert(st == 299, "C01.upstream content only from the backend")
		} else {
			zz.Reach("refused")
			zz.Assert(zz.Or(st == 302, st == 401, st == 403, st == 500), "C01.refusal is redirect or error")
			zz.ReachIf(st == 302, "signin-redirect")
			zz.ReachIf(st == 403, "forbidden")
			zz.ReachIf(st == 401, "unauthorized")
			zz.Assert(zz.Implies(st == 302, strings.HasPrefix(rec.H.Get("Location"), verifAuthBase+"/"+verifSlug+"/sign_in?")), "C01.redirect goes to the provider sign-in URL")
			zz.Assert(!white, "C01.whitelisted request is never refused")
		}
	case 1:
		zz.Assert(!reached, "C01.auth-only never proxies")
		zz.ReachIf(st == 202, "auth-only-202")
		zz.ReachIf(st == 401, "auth-only-401")
		zz.Assert(zz.Implies(st == 202, authOK), "C01.202 only for an authorized session")
		zz.Assert(zz.Or(st == 202, st == 401), "C01.auth-only answers 202 or 401")
	case 2:
		// Favicon authenticates, then goes through Proxy (which authenticates again)
		if reached {
			zz.Reach("favicon-reached")
			zz.Assert(gates, "C01.favicon reached implies cookie passes slug, host and lifetime gates")
		} else {
			zz.Assert(st != 299 && st != 200, "C01.favicon refusal carries no upstream content")
		}
	}
	// a forged or absent cookie never authenticates
	if kind != 1 {
		zz.Assert(zz.Or(!reached, zz.And(white, entry == 0)), "C01.no genuine cookie: only skip-auth reaches")
		zz.Assert(a.Refresh.Called+a.Validate.Called+a.Profile.Called == 0, "C01.no genuine cookie: authenticator not consulted")
	}
}
