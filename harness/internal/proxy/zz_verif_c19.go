package proxy

import (
	"net/http"
	"net/url"
	"strings"
	"time"

	"github.com/buzzfeed/sso/internal/auth"
	zz "github.com/buzzfeed/sso/internal/zzverif"
)

func init() { VerifHarnesses["VerifC19ProxySignOut"] = VerifC19ProxySignOut }

// VerifC19ProxySignOut: the proxy's /oauth2/sign_out and the cross-service agreement: the URL
// the real SSOProvider.GetSignOutURL emits is accepted by the authenticator's real
// validSignature / validRedirectURI with the same secret - and with no other secret or URI.
func VerifC19ProxySignOut() {
	zz.ClockMaxAdvance(time.Second)
	env := verifNewEnv(verifPolicy{Domains: []string{"*"}})
	secure := zz.NondetBool("cookie.secure")
	env.P.cookieSecure = secure
	req := zz.NewRequest("GET", zz.NondetString("req.host"), "/oauth2/sign_out", "")
	zz.Assume(zz.And(req.Host != "", !strings.Contains(req.Host, ":"), !strings.Contains(req.Host, "/"), !strings.Contains(req.Host, "?"), !strings.Contains(req.Host, "#"), !strings.Contains(req.Host, "@"), !strings.Contains(req.Host, " "), !strings.Contains(req.Host, "%"), !strings.HasPrefix(req.Host, ".")))
	if zz.NondetBool("has.cookie") {
		v := zz.NondetString("cookie.value")
		zz.Assume(verifCookieValueOK(v))
		req.Header.Set("Cookie", zz.CookieLine(&http.Cookie{Name: verifCookieName, Value: v}))
	}
	// history: an earlier visitor may have signed out through the same proxy on another host
	if zz.NondetBool("earlier.signout") {
		h0 := zz.NondetString("earlier.host")
		zz.Assume(zz.And(h0 != "", !strings.Contains(h0, ":"), !strings.Contains(h0, "/"), !strings.Contains(h0, "?"), !strings.Contains(h0, "#"), !strings.Contains(h0, "@"), !strings.Contains(h0, " "), !strings.Contains(h0, "%"), !strings.HasPrefix(h0, ".")))
		env.P.SignOut(zz.NewRecorder(), zz.NewRequest("GET", h0, "/oauth2/sign_out", ""))
		zz.Reach("after-an-earlier-sign-out")
	}
	t0 := time.Now()
	rec := zz.NewRecorder()
	env.P.SignOut(rec, req)
	tEnd := time.Now()
	// (a) the proxy session cookie is cleared and the browser is sent to the provider's sign-out URL
	c := verifSessionCookie(rec, verifCookieName)
	zz.Assert(c != nil && c.Value == "" && c.Expires.Before(tEnd), "C19.proxy sign-out clears the session cookie")
	zz.Assert(rec.Status() == 302, "C19.proxy sign-out redirects")
	loc, err := url.Parse(rec.H.Get("Location"))
	zz.Assert(err == nil && loc != nil, "C19.sign-out Location is a URL")
	if err != nil || loc == nil {
		return
	}
	zz.Assert(zz.And(loc.Scheme == "https", loc.Host == "sso-auth.example", loc.Path == "/"+verifSlug+"/sign_out"), "C19.redirect goes to the provider's sign-out endpoint")
	q := zz.QueryOfURL(loc)
	uri, sig, ts := q.Get("redirect_uri"), q.Get("sig"), q.Get("ts")
	scheme := "http"
	if secure {
		scheme = "https"
	}
	zz.Assert(uri == scheme+"://"+req.Host+"/", "C19.return address is the same host's root")
	zz.Assert(len(q["redirect_uri"]) == 1 && len(q["sig"]) == 1 && len(q["ts"]) == 1, "C19.exactly one redirect_uri, sig and ts")
	// (b) cross-service agreement, authenticator clock within the same second-scale window
	zz.Reach("signed-url-emitted")
	switch zz.Choose("cross-check", 4) {
	case 0:
		zz.Assert(auth.VerifValidSignature(uri, sig, ts, env.Data.ClientSecret), "C19.the authenticator accepts the proxy's signature under the shared secret")
	case 1:
		other := zz.NondetString("other.secret")
		zz.Assume(other != env.Data.ClientSecret)
		zz.Assert(!auth.VerifValidSignature(uri, sig, ts, other), "C19.a different secret does not verify")
	case 2:
		tampered := zz.NondetString("tampered.uri")
		zz.Assume(tampered != uri)
		zz.Assert(!auth.VerifValidSignature(tampered, sig, ts, env.Data.ClientSecret), "C19.a changed return address does not verify")
	case 3:
		zz.Assert(auth.VerifValidRedirectURI(uri, []string{"."+req.Host}), "C19.the return address is in the proxy's own domain")
	}
	_ = t0
}

func init() { VerifHarnesses["VerifC19SignOutQuery"] = VerifC19SignOutQuery }

// VerifC19SignOutQuery: whatever query string comes with the sign-out request (a few literal
// shapes of parameters a client could add, so that net/url's own code computes every derived
// URL), the signed return address stays on the request's own host.
func VerifC19SignOutQuery() {
	zz.ClockMaxAdvance(time.Second)
	env := verifNewEnv(verifPolicy{Domains: []string{"*"}})
	env.P.cookieSecure = zz.NondetBool("cookie.secure")
	queries := []string{"", "rd=/signed-out", "rd=//other.sso.test/", "rd=%2F%2Fother.sso.test%2F", "rd=/%5Cother.sso.test/",
		"redirect_uri=https://other.sso.test/", "redirect=//other.sso.test/&next=//other.sso.test/", "return_to=https://other.sso.test/"}
	q := queries[zz.Choose("req.query", len(queries))]
	host := "app.sso.test"
	u, err := url.ParseRequestURI("/oauth2/sign_out?" + q)
	if q == "" {
		u, err = url.ParseRequestURI("/oauth2/sign_out")
	}
	if err != nil {
		panic(err)
	}
	req := &http.Request{Method: "GET", Host: host, URL: u, Header: http.Header{}, RequestURI: u.RequestURI()}
	rec := zz.NewRecorder()
	env.P.SignOut(rec, req)
	zz.Assert(rec.Status() == 302, "C19.proxy sign-out redirects (any query)")
	loc, perr := url.Parse(rec.H.Get("Location"))
	if perr != nil || loc == nil {
		zz.Assert(false, "C19.sign-out Location is a URL (any query)")
		return
	}
	ret, rerr := url.Parse(loc.Query().Get("redirect_uri"))
	zz.Reach("signed-url-emitted")
	zz.Assert(rerr == nil && ret != nil && ret.Host == host && !strings.HasPrefix(ret.Path, "//") && !strings.HasPrefix(ret.Path, "/\\"),
		"C19.the signed return address stays on the request's own host whatever the request's query says")
}
