package proxy

import (
	"net/http"
	"net/url"
	"strings"
	"time"

	"github.com/buzzfeed/sso/internal/auth"
	zz "github.com/buzzfeed/sso/internal/zzverif"
)

func init() { VerifHarnesses["VerifC19ProxySignOut"] = VerifC19ProxySignOut }

// VerifC19ProxySignOut: the proxy's /oauth2/sign_out and the cross-service agreement: the URL
// the real SSOProvider.GetSignOutURL emits is accepted by the authenticator's real
// validSignature / validRedirectURI with the same secret - and with no other secret or URI.
func VerifC19ProxySignOut() {
	zz.ClockMaxAdvance(time.Second)
	env := verifNewEnv(verifPolicy{Domains: []string{"*"}})
	secure := zz.NondetBool("cookie.secure")
	env.P.cookieSecure = secure
	req := zz.NewRequest("GET", zz.NondetString("req.host"), "/oauth2/sign_out", "")
	zz.Assume(zz.And(req.Host != "", !strings.Contains(req.Host, ":"), !strings.Contains(req.Host, "/"), !strings.Contains(req.Host, "?"), !strings.Contains(req.Host, "#"), !strings.Contains(req.Host, "@"), !strings.Contains(req.Host, " "), !strings.Contains(req.Host, "%"), !strings.HasPrefix(req.Host, ".")))
	if zz.NondetBool("has.cookie") {
		v := zz.NondetString("cookie.value")
		zz.Assume(verifCookieValueOK(v))
		req.Header.Set("Cookie", zz.CookieLine(&http.Cookie{Name: verifCookieName, Value: v}))
	}
	// history: an earlier visitor may have signed out through the same proxy on another host
	if zz.NondetBool("earlier.signout") {
		h0 := zz.NondetString("earlier.host")
		zz.Assume(zz.And(h0 != "", !strings.Contains(h0, ":"), !strings.Contains(h0, "/"), !strings.Contains(h0, "?"), !strings.Contains(h0, "#"), !strings.Contains(h0, "@"), !strings.Contains(h0, " "), !strings.Contains(h0, "%"), !strings.HasPrefix(h0, ".")))
		env.P.SignOut(zz.NewRecorder(), zz.NewRequest("GET", h0, "/oauth2/sign_out", ""))
		zz.Reach("after-an-earlier-sign-out")
	}
	t0 := time.Now()
	rec := zz.NewRecorder()
	env.P.SignOut(rec, req)
	tEnd := time.Now()
	// (a) the proxy session cookie is cleared and the browser is sent to the provider's sign-out URL
	c := verifSessionCookie(rec, verifCookieName)
	zz.Assert(c != nil && c.Value == "" && c.Expires.Before(tEnd), "C19.proxy sign-out clears the session cookie")
	zz.Assert(rec.Status() == 302, "C19.proxy sign-out redirects")
	loc, err := url.Parse(rec.H.Get("Location"))
	zz.Assert(err == nil && loc != nil, "C19.sign-out Location is a URL")
	if err != nil || loc == nil {
		return
	}
	zz.Assert(zz.And(loc.Scheme == "https", loc.Host == "sso-auth.example", loc.Path == "/"+verifSlug+"/sign_out"), "C19.redirect goes to the provider's sign-out endpoint")
	q := zz.QueryOfURL(loc)
	uri, sig, ts := q.Get("redirect_uri"), q.Get("sig"), q.Get("ts")
	scheme := "http"
	if secure {
		scheme = "https"
	}
	zz.Assert(uri == scheme+"://"+req.Host+"/", "C19.return address is the same host's root")
	zz.Assert(len(q["redirect_uri"]) == 1 && len(q["sig"]) == 1 && len(q["ts"]) == 1, "C19.exactly one redirect_uri, sig and ts")
	// (b) cross-service agreement, authenticator clock within the same second-scale window
	zz.Reach("signed-url-emitted")
	switch zz.Choose("cross-check", 4) {
	case 0:
		zz.Assert(auth.VerifValidSignature(uri, sig, ts, env.Data.ClientSecret), "C19.the authenticator accepts the proxy's signature under the shared secret")
	case 1:
		other := zz.NondetString("other.secret")
		zz.Assume(other != env.Data.ClientSecret)
		zz.Assert(!auth.VerifValidSignature(uri, sig, ts, other), "C19.a different secret does not verify")
	case 2:
		tampered := zz.NondetString("tampered.uri")
		zz.Assume(tampered != uri)
		zz.Assert(!auth.VerifValidSignature(tampered, sig, ts, env.Data.ClientSecret), "C19.a changed return address does not verify")
	case 3:
		zz.Assert(auth.VerifValidRedirectURI(uri, []string{"."+req.Host}), "C19.the return address is in the proxy's own domain")
	}
	_ = t0
}
