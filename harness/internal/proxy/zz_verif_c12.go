package proxy

import (
	"crypto"
	"hash"
	"io"
	"io/ioutil"
	"net/http"
	"strings"
	"time"

	"github.com/18F/hmacauth"
	zz "github.com/buzzfeed/sso/internal/zzverif"
)

func init() {
	VerifHarnesses["VerifC12Canonical"] = VerifC12Canonical
	VerifHarnesses["VerifC12Upstream"] = VerifC12Upstream
	VerifHarnesses["VerifC12Sensitivity"] = VerifC12Sensitivity
}

// the documented list of covered headers, in order (docs + request_signer.go comment) -
// deliberately NOT read from the package variable
var verifCovered = []string{"Content-Length", "Content-Md5", "Content-Type", "Date", "Authorization",
	"X-Forwarded-User", "X-Forwarded-Email", "X-Forwarded-Groups", "X-Forwarded-Access-Token", "Cookie"}

// verifCanonical: the documented canonical form, written independently.
func verifCanonical(h http.Header, path, query, fragment string, hasBody bool, body string) string {
	out := ""
	first := true
	add := func(line string) {
		if !first {
			out += "\n"
		}
		out += line
		first = false
	}
	for _, k := range verifCovered {
		line, any := "", false
		for _, v := range h[k] {
			if v == "" {
				continue
			}
			if any {
				line += ","
			}
			line += v
			any = true
		}
		if any {
			add(line)
		}
	}
	u := path
	if query != "" {
		u += "?" + query
	}
	if fragment != "" {
		u += "#" + fragment
	}
	add(u)
	if hasBody {
		add(body)
	}
	return out
}

// verifHeaders gives header k 0..2 symbolic (possibly empty) values, its successor in the
// covered list one value, and one uncovered header.
func verifHeaders(h http.Header) {
	// which covered header carries the symbolic values: all ten (thorough) or four spread over the list (quick)
	k := 0
	if zz.Bound("c12AllHeaders", 0) == 0 {
		k = []int{0, 4, 7, 9}[zz.Choose("header.index", 4)]
	} else {
		k = zz.Choose("header.index", len(verifCovered))
	}
	n := zz.Choose("header.values", 3)
	for i := 0; i < n; i++ {
		h.Add(verifCovered[k], zz.NondetString("header.value"))
	}
	if zz.NondetBool("next.header.present") {
		h.Add(verifCovered[(k+1)%len(verifCovered)], zz.NondetString("next.header.value"))
	}
	h.Set("X-Uncovered", zz.NondetString("uncovered.value"))
}

// VerifC12Canonical: mapRequestToHashInput == documented canonical form; the body is restored.
func VerifC12Canonical() {
	req := zz.NewRequest("POST", "app.sso.test", zz.NondetString("path"), zz.NondetString("query"))
	if zz.NondetBool("has.fragment") {
		req.URL.Fragment = zz.NondetString("fragment")
	}
	verifHeaders(req.Header)
	hasBody := zz.NondetBool("has.body")
	body := ""
	if hasBody {
		body = zz.NondetString("body")
		req.Body = &zz.Body{Data: []byte(body)}
	}
	got, err := mapRequestToHashInput(req)
	zz.Assert(err == nil, "C12.canonical form is always produced")
	want := verifCanonical(req.Header, req.URL.Path, req.URL.RawQuery, req.URL.Fragment, hasBody, body)
	zz.ReachIf(hasBody, "with-body")
	zz.Assert(got == want, "C12.the signed representation is the documented canonical form")
	if hasBody {
		zz.Assert(req.Body != nil, "C12.body still present after signing")
		if req.Body != nil {
			b, rerr := ioutil.ReadAll(req.Body)
			zz.Assert(rerr == nil && string(b) == body, "C12.the body is restored byte for byte after signing")
		}
	}
}

// ---- a signer whose hash and signature are uninterpreted, and which records what was hashed ----

type verifHasher struct{ rec *verifSignRec }

func (h verifHasher) Write(p []byte) (int, error) { h.rec.Hashed += string(p); return len(p), nil }
func (h verifHasher) Sum(b []byte) []byte         { return []byte(zz.UFStringInj("sha256", h.rec.Hashed)) }
func (h verifHasher) Reset()                      { h.rec.Hashed = ""; h.rec.Resets++ }
func (h verifHasher) Size() int                   { return 32 }
func (h verifHasher) BlockSize() int              { return 64 }

type verifSignRec struct {
	Hashed string
	Resets int
	Signed int
	Digest string
}

type verifRSA struct{ rec *verifSignRec }

func (k verifRSA) Public() crypto.PublicKey { return nil }
func (k verifRSA) Sign(_ io.Reader, digest []byte, _ crypto.SignerOpts) ([]byte, error) {
	k.rec.Signed++
	k.rec.Digest = string(digest)
	return []byte(zz.UFStringInj("rsa_sign", string(digest))), nil
}

type verifHMAC struct {
	Calls        int
	HadSsoSig    bool
	CookieAtSign []string
}

func (m *verifHMAC) StringToSign(*http.Request) string        { return "" }
func (m *verifHMAC) RequestSignature(*http.Request) string    { return "" }
func (m *verifHMAC) SignatureFromHeader(*http.Request) string { return "" }
func (m *verifHMAC) AuthenticateRequest(*http.Request) (hmacauth.AuthenticationResult, string, string) {
	return 0, "", ""
}
func (m *verifHMAC) SignRequest(req *http.Request) {
	m.Calls++
	m.HadSsoSig = len(req.Header["Sso-Signature"]) > 0
	m.CookieAtSign = req.Header["Cookie"]
	req.Header.Set(HMACSignatureHeader, "hmac-of-request")
}

// VerifC12Upstream: what was signed is what the upstream receives (ordering of cookie stripping,
// identity injection, HMAC and RSA signing inside the real handler chain).
func VerifC12Upstream() {
	zz.ClockMaxAdvance(time.Hour)
	rec := &verifSignRec{}
	signer := &RequestSigner{newHasher: func() hash.Hash { return verifHasher{rec} }, signingKey: verifRSA{rec}, publicKeyID: "key-id"}
	hm := &verifHMAC{}
	withHMAC := zz.NondetBool("hmac.configured")
	env := verifNewChainEnv(verifPolicy{Domains: []string{"*"}, PassToken: zz.NondetBool("pol.passtoken")}, verifChainOpts{Signer: signer, CookieSecure: false})
	if withHMAC {
		env.P.upstreamConfig.HMACAuth = hm
		h, err := NewUpstreamReverseProxy(env.P.upstreamConfig, signer)
		if err != nil {
			panic(err)
		}
		env.P.handler = h
	}
	req := verifRequest()
	req.Method = "POST"
	req.URL.Scheme = "https"
	zz.Assume(verifProxiedPath(req.URL.Path))
	zz.Assume(req.Header.Get("X-Requested-With") == "")
	verifHeaders(req.Header)
	// cookies: the session cookie and optionally another one
	sess := verifFreshSession(env, req.Host, 1)
	cookies := []*http.Cookie{{Name: verifCookieName, Value: env.Cipher.Preload("cookie", sess)}}
	if zz.NondetBool("other.cookie") {
		c := &http.Cookie{Name: "other", Value: zz.NondetString("other.cookie.value")}
		zz.Assume(verifCookieValueOK(c.Value))
		cookies = append(cookies, c)
	}
	delete(req.Header, "Cookie")
	req.Header.Set("Cookie", zz.CookieLine(cookies...))
	hasBody := zz.NondetBool("has.body")
	body := ""
	if hasBody {
		body = zz.NondetString("body")
		zz.Assume(body != "")
		req.Body = &zz.Body{Data: []byte(body)}
		req.ContentLength = int64(len(body))
	}
	w := zz.NewRecorder()
	env.P.Proxy(w, req)
	up := zz.Upstream
	if up.Calls == 0 {
		zz.Reach("not-forwarded")
		return
	}
	zz.Reach("forwarded-signed")
	zz.Assert(rec.Signed == 1 && rec.Resets >= 1, "C12.every forwarded request is signed once with a fresh hash state")
	zz.Assert(verifHeaderIs(up.Header, "Kid", "key-id"), "C12.the key id header names the signing key")
	zz.Assert(len(up.Header["Sso-Signature"]) == 1, "C12.exactly one signature header")
	// the representation that was hashed is the canonical form of the request AS RECEIVED
	want := verifCanonical(up.Header, up.Path, up.RawQuery, "", hasBody, up.Body)
	zz.Assert(rec.Hashed == want, "C12.the signature covers the canonical form of the request the upstream received")
	zz.Assert(zz.Implies(hasBody, up.HasBody && up.Body == body), "C12.the body arrives intact")
	if withHMAC {
		zz.Reach("hmac-signed")
		zz.Assert(hm.Calls == 1 && !hm.HadSsoSig, "C12.the shared-key HMAC is computed before, and does not cover, the RSA signature header")
		zz.Assert(verifHeaderIs(up.Header, HMACSignatureHeader, "hmac-of-request"), "C12.the HMAC signature header reaches the upstream")
		zz.Assert(len(hm.CookieAtSign) == len(up.Header["Cookie"]), "C12.the HMAC is computed after the session cookie was stripped")
	}
}

// VerifC12Sensitivity: changing exactly one covered component changes the canonical form.
func VerifC12Sensitivity() {
	mk := func() (http.Header, string, string, string) {
		h := http.Header{}
		for _, k := range []string{"Content-Type", "Authorization", "X-Forwarded-Email"} {
			v := zz.NondetString("value." + k)
			zz.Assume(zz.And(v != "", !strings.Contains(v, "\n"), !strings.Contains(v, ",")))
			h.Set(k, v)
		}
		p, q, b := zz.NondetString("path"), zz.NondetString("query"), zz.NondetString("body")
		zz.Assume(zz.And(!strings.Contains(p, "\n"), !strings.Contains(p, "?"), !strings.Contains(p, "#"), !strings.Contains(q, "\n"), !strings.Contains(q, "#"), q != "", p != ""))
		return h, p, q, b
	}
	h1, p1, q1, b1 := mk()
	h2, p2, q2, b2 := http.Header{}, p1, q1, b1
	for k, v := range h1 {
		h2[k] = v
	}
	which := zz.Choose("changed.component", 6)
	names := []string{"Content-Type", "Authorization", "X-Forwarded-Email", "path", "query", "body"}
	nv := zz.NondetString("new.value")
	switch which {
	case 0, 1, 2:
		zz.Assume(zz.And(nv != "", !strings.Contains(nv, "\n"), !strings.Contains(nv, ","), nv != h1.Get(names[which])))
		h2 = http.Header{}
		for k, v := range h1 {
			h2[k] = v
		}
		h2[names[which]] = []string{nv}
	case 3:
		zz.Assume(zz.And(nv != p1, nv != "", !strings.Contains(nv, "\n"), !strings.Contains(nv, "?"), !strings.Contains(nv, "#")))
		p2 = nv
	case 4:
		zz.Assume(zz.And(nv != q1, nv != "", !strings.Contains(nv, "\n"), !strings.Contains(nv, "#")))
		q2 = nv
	case 5:
		zz.Assume(nv != b1)
		b2 = nv
	}
	r1 := &http.Request{Header: h1, URL: zz.NewRequest("GET", "h", p1, q1).URL, Body: &zz.Body{Data: []byte(b1)}}
	r2 := &http.Request{Header: h2, URL: zz.NewRequest("GET", "h", p2, q2).URL, Body: &zz.Body{Data: []byte(b2)}}
	s1, _ := mapRequestToHashInput(r1)
	s2, _ := mapRequestToHashInput(r2)
	zz.Reach("changed " + names[which])
	zz.Assert(s1 != s2, "C12.changing one covered component ("+names[which]+") changes the signed representation")
}
