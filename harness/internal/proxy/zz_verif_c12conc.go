package proxy

import (
	"crypto/sha256"
	"io/ioutil"
	"net/http"

	zz "github.com/buzzfeed/sso/internal/zzverif"
)

func init() { VerifHarnesses["VerifC12ConcurrentSign"] = VerifC12ConcurrentSign }

// VerifC12ConcurrentSign: the signer built by the REAL NewRequestSigner (from the repository's
// test key) signs two different requests at the same time, under every interleaving of the
// hash operations: each request ends up with the signature over ITS OWN canonical form -
// i.e. the signer keeps no hash state that concurrent requests share.
func VerifC12ConcurrentSign() {
	pemKey, err := ioutil.ReadFile("testdata/private_key.pem")
	if err != nil {
		panic(err)
	}
	signer, err := NewRequestSigner(string(pemKey))
	if err != nil || signer == nil {
		panic("no signer")
	}
	// the hash state of one signing is not the hash state of another (white-box: Sign takes its
	// state from signer.newHasher on every call)
	h1, h2 := signer.newHasher(), signer.newHasher()
	x := zz.NondetString("other.signing.input")
	zz.Assume(x != "")
	h1.Reset()
	h1.Write([]byte(x))
	fresh := sha256.New()
	zz.Assert(string(h2.Sum(nil)) == string(fresh.Sum(nil)), "C12.each signing has its own hash state")
	var reqs [2]*http.Request
	var sigs [2]string
	var done [2]bool
	for i := 0; i < 2; i++ {
		i := i
		path := zz.NondetString("req.path")
		zz.Assume(verifProxiedPath(path))
		reqs[i] = zz.NewRequest("GET", "app.sso.test", path, "")
		zz.Go("signing", func() {
			if err := signer.Sign(reqs[i]); err != nil {
				panic(err)
			}
			sigs[i] = reqs[i].Header.Get("Sso-Signature")
			done[i] = true
		})
	}
	zz.Assume(reqs[0].URL.Path != reqs[1].URL.Path)
	zz.RunSchedule(zz.Bound("c12ConcSteps", 16))
	if !(done[0] && done[1]) {
		zz.Reach("budget")
		return
	}
	zz.Reach("both-signed")
	// the reference: the same signer, one request at a time
	for i := 0; i < 2; i++ {
		ref := zz.NewRequest("GET", "app.sso.test", reqs[i].URL.Path, "")
		if err := signer.Sign(ref); err != nil {
			panic(err)
		}
		zz.Assert(sigs[i] == ref.Header.Get("Sso-Signature"), "C12.concurrent signings each produce the signature of their own request")
	}
}
