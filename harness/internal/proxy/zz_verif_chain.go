package proxy

// Handler-chain environment (C03, C12, C18): the real OAuthProxy.Handler() middleware stack
// (setSecurityHeaders > header overrides > requireHTTPS > router) in front of the real
// NewUpstreamReverseProxy chain (deleteCookie > signing > timeout > ReverseProxy with sso's
// Director and ModifyResponse), ending in the recording backend zz.Upstream.

import (
	"net/http"
	"net/url"
	"time"

	"github.com/buzzfeed/sso/internal/pkg/sessions"
	zz "github.com/buzzfeed/sso/internal/zzverif"
)

type verifChainOpts struct {
	Timeout      bool
	Signer       *RequestSigner
	SkipSigning  bool
	Overrides    map[string]string
	Inject       map[string]string
	CookieSecure bool
	PreserveHost bool
}

func verifNewChainEnv(pol verifPolicy, o verifChainOpts) *verifEnv {
	env := verifNewEnv(pol)
	up := zz.StartUpstream()
	uc := env.P.upstreamConfig
	uc.Route = &SimpleRoute{FromURL: &url.URL{Scheme: "https", Host: "app.sso.test"}, ToURL: &url.URL{Scheme: "http", Host: up}}
	uc.SkipRequestSigning = o.SkipSigning
	uc.HeaderOverrides = o.Overrides
	uc.InjectRequestHeaders = o.Inject
	uc.PreserveHost = o.PreserveHost
	if o.Timeout {
		uc.Timeout = 10 * time.Second
	}
	h, err := NewUpstreamReverseProxy(uc, o.Signer)
	if err != nil {
		panic(err)
	}
	env.P.handler = h
	env.P.requestSigner = o.Signer
	env.P.cookieSecure = o.CookieSecure
	env.Store.CookieSecure = o.CookieSecure
	return env
}

// verifFreshSession: a session for this upstream with nothing due (the identity the proxy asserts).
func verifFreshSession(env *verifEnv, host string, nGroups int) *sessions.SessionState {
	s := verifSession("sess", nGroups)
	s.ProviderSlug, s.AuthorizedUpstream = verifSlug, host
	far := time.Now().Add(24 * time.Hour)
	s.LifetimeDeadline, s.RefreshDeadline, s.ValidDeadline = far, far, far
	return s
}

// verifProxiedPath: the request goes to the catch-all route (not one of the proxy's own endpoints).
func verifProxiedPath(path string) bool {
	return zz.And(path != "/favicon.ico", path != "/robots.txt", path != "/oauth2/v1/certs", path != "/oauth2/sign_out", path != "/oauth2/callback", path != "/oauth2/auth", path != "/ping")
}

func verifHeaderIs(h http.Header, key, val string) bool {
	vs := h[key]
	return len(vs) == 1 && vs[0] == val
}
