package proxy

import (
	zz "github.com/buzzfeed/sso/internal/zzverif"
)

func init() { VerifHarnesses["VerifC12Environment"] = VerifC12Environment }

// VerifC12Environment: the signing key (and every other template variable) reaches the
// configuration exactly as the environment states it: for SSO_CONFIG_<NAME>=<value> with an
// arbitrary value - including values that contain '=' such as padded base64 secrets -
// parseEnvironment maps the lower-cased name to exactly that value; other variables are ignored.
func VerifC12Environment() {
	v := zz.NondetChars("env.value", zz.Bound("c12EnvLen", 4))
	other := zz.NondetChars("env.other", 3)
	env := parseEnvironment([]string{"PATH=" + other, "SSO_CONFIG_MYSVC_SIGNING_KEY=" + v, "SSO_CONFIG_CLUSTER=prod"})
	got, ok := env["mysvc_signing_key"]
	zz.Assert(ok && got == v, "C12.a signing key from the environment is taken verbatim, '=' included")
	zz.Assert(env["cluster"] == "prod" && len(env) == 2, "C12.only SSO_CONFIG_ variables are taken, under their lower-cased names")
	zz.Reach("parsed")
}
