package proxy

import (
	"strings"
	"fmt"
	"net/http"
	"net/url"

	"github.com/buzzfeed/sso/internal/pkg/sessions"
	"github.com/buzzfeed/sso/internal/pkg/validators"
	zz "github.com/buzzfeed/sso/internal/zzverif"
)

func init() { VerifHarnesses["VerifSelftestProxy"] = VerifSelftestProxy }

// VerifSelftestProxy: the repository's own test inputs pushed through the real functions,
// observed symbolically and natively (translation validation of encoder + models).
func VerifSelftestProxy() {
	// validators (inputs from email_*_validator_test.go)
	dv := validators.NewEmailDomainValidator([]string{"example.com", "Bar.COM"})
	for _, e := range []string{"foo@example.com", "foo@notexample.com", "FOO@EXAMPLE.COM", "foo@bar.com", "", "foo@evilexample.com", "example.com"} {
		zz.Observe("domain:"+e, dv.Validate(&sessions.SessionState{Email: e}) == nil)
	}
	av := validators.NewEmailAddressValidator([]string{"foo@example.com", "Bar@Example.com"})
	for _, e := range []string{"foo@example.com", "bar@example.com", "baz@example.com", ""} {
		zz.Observe("address:"+e, av.Validate(&sessions.SessionState{Email: e}) == nil)
	}
	wild := validators.NewEmailDomainValidator([]string{"*"})
	zz.Observe("wildcard", fmt.Sprint(wild.Validate(&sessions.SessionState{Email: "x@y"}) == nil, wild.Validate(&sessions.SessionState{Email: ""}) == nil))
	// singleJoiningSlash (reverse_proxy_test.go)
	zz.Observe("slash", singleJoiningSlash("/a/", "/b")+"|"+singleJoiningSlash("/a", "b")+"|"+singleJoiningSlash("", "/b")+"|"+singleJoiningSlash("/a/", "b"))
	// canonical request representation (request_signer_test.go)
	req := zz.NewRequest("POST", "foo.sso.test", "/foo/bar", "beep=boop")
	req.Header.Set("Content-Type", "application/json")
	req.Header.Add("X-Forwarded-Groups", "a")
	req.Header.Add("X-Forwarded-Groups", "")
	req.Header.Add("X-Forwarded-Groups", "b")
	req.Header.Set("X-Not-Signed", "zzz")
	req.Header.Set("Date", "2018-11-08")
	req.URL.Fragment = "frag"
	req.Body = &zz.Body{Data: []byte("{}")}
	repr, _ := mapRequestToHashInput(req)
	zz.Observe("canonical", repr)
	// deleteCookie (reverse_proxy_test.go)
	r2 := zz.NewRequest("GET", "foo.sso.test", "/", "")
	r2.Header.Set("Cookie", zz.CookieLine(&http.Cookie{Name: "a", Value: "1"}, &http.Cookie{Name: "_sso_proxy", Value: "secret"}, &http.Cookie{Name: "b", Value: "2"}))
	deleteCookie(r2, "_sso_proxy")
	zz.Observe("deleteCookie", strings.Join(r2.Header["Cookie"], "|"))
	r3 := zz.NewRequest("GET", "foo.sso.test", "/", "")
	r3.Header.Set("Cookie", zz.CookieLine(&http.Cookie{Name: "_sso_proxy", Value: "secret"}))
	deleteCookie(r3, "_sso_proxy")
	zz.Observe("deleteCookie.only", len(r3.Header["Cookie"]))
	// director
	d := &Director{config: &UpstreamConfig{}}
	r4 := zz.NewRequest("GET", "foo.sso.test", "/x", "q=1")
	d.DirectorFunc(&url.URL{Scheme: "http", Host: "up.internal", Path: "/base"})(r4)
	zz.Observe("director", r4.URL.String()+"|"+r4.Host+"|"+strings.Join(r4.Header["X-Forwarded-Host"], ","))
	p := &OAuthProxy{cookieSecure: true, redirectURL: &url.URL{Path: "/oauth2/callback"}}
	zz.Observe("isXHR", p.isXHR(req))
	zz.Observe("redirectURL", p.GetRedirectURL("foo.sso.test").String())
	// http helpers through the models
	rec := zz.NewRecorder()
	http.Redirect(rec, req, "/elsewhere", 302)
	zz.Observe("redirect", fmt.Sprint(rec.Status(), rec.H.Get("Location")))
	rec2 := zz.NewRecorder()
	http.Error(rec2, "nope", 403)
	zz.Observe("error", fmt.Sprint(rec2.Status(), rec2.H.Get("X-Content-Type-Options")))
}
