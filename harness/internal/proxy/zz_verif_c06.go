package proxy

import (
	"net/http"
	"net/url"
	"strings"
	"time"

	"github.com/buzzfeed/sso/internal/pkg/sessions"
	"github.com/buzzfeed/sso/internal/proxy/providers"
	zz "github.com/buzzfeed/sso/internal/zzverif"
)

func init() {
	VerifHarnesses["VerifC06Start"] = VerifC06Start
	VerifHarnesses["VerifC06Callback"] = VerifC06Callback
}

// verifRecProvider records what OAuthStart hands to the provider.
type verifRecProvider struct {
	providers.Provider
	State    string
	Callback string
	Calls    int
}

func (r *verifRecProvider) GetSignInURL(cb *url.URL, state string) *url.URL {
	r.Calls++
	r.State, r.Callback = state, cb.String()
	return r.Provider.GetSignInURL(cb, state)
}

// VerifC06Start: the flow record minted by OAuthStart.
func VerifC06Start() {
	env := verifNewEnv(verifPolicy{Domains: []string{"*"}})
	rp := &verifRecProvider{Provider: env.P.provider}
	env.P.provider = rp
	req := verifRequest()
	zz.Assume(req.Header.Get("X-Requested-With") == "") // XHR requests get a 401 instead of a flow
	uri := req.URL.Path
	if req.URL.RawQuery != "" {
		uri += "?" + req.URL.RawQuery
	}
	rec := zz.NewRecorder()
	env.P.Proxy(rec, req) // no cookie: starts a flow
	zz.Assert(rec.Status() == 302 && rp.Calls == 1, "C06.start redirects to the provider")
	var csrf *http.Cookie
	for _, c := range rec.SetCookies() {
		if c.Name == verifCookieName+"_csrf" {
			csrf = c
		}
	}
	zz.Assert(csrf != nil, "C06.start sets the CSRF cookie")
	if csrf == nil {
		return
	}
	var fromCookie, fromState StateParameter
	e1 := env.Cipher.Unmarshal(csrf.Value, &fromCookie)
	e2 := env.Cipher.Unmarshal(rp.State, &fromState)
	zz.Assert(e1 == nil && e2 == nil, "C06.cookie and state are both sealed under the proxy's key")
	zz.Assert(csrf.Value != rp.State, "C06.cookie and state are different ciphertexts")
	zz.Assert(env.Cipher.Marshals == 2, "C06.the record is sealed twice, independently")
	zz.Assert(fromCookie == fromState, "C06.cookie and state open to the same flow record")
	zz.Assert(fromState.RedirectURI == uri, "C06.the recorded URI is this request's own target")
	zz.Assert(zz.And(strings.HasPrefix(fromState.RedirectURI, "/"), !strings.HasPrefix(fromState.RedirectURI, "//")), "C06.the recorded URI is same-site (one leading slash)")
	zz.Assert(rp.Callback == "https://"+req.Host+"/oauth2/callback", "C06.the callback URL names this request's host")
	zz.Reach("flow-started")
}

// VerifC06Callback: one callback request against an adversarial history of values sealed by
// this proxy: two earlier flows A and B (each: a cookie value and a state value opening to
// the flow's record) and one session cookie value.
func VerifC06Callback() {
	shape := zz.Choose("pol.shape", zz.Bound("c06Shapes", 1))
	pol := verifPolicyShape(shape)
	env := verifNewEnv(pol)
	c := env.Cipher
	recA := &StateParameter{SessionID: zz.NondetString("flowA.id"), RedirectURI: zz.NondetString("flowA.uri")}
	recB := &StateParameter{SessionID: zz.NondetString("flowB.id"), RedirectURI: zz.NondetString("flowB.uri")}
	zz.Assume(recA.SessionID != recB.SessionID) // flow ids are fresh 32-byte random values
	sealed := []string{c.Preload("flowA.cookie", recA), c.Preload("flowA.state", recA), c.Preload("flowB.cookie", recB), c.Preload("flowB.state", recB),
		c.Preload("session", verifSession("old", 0))}
	recs := []*StateParameter{recA, recA, recB, recB, {}}
	pick := func(label string) (string, int) {
		k := zz.Choose(label, len(sealed)+1)
		if k == len(sealed) {
			v := zz.NondetString(label + ".forged")
			return v, -1
		}
		return sealed[k], k
	}
	req := zz.NewRequest("GET", zz.NondetString("req.host"), "/oauth2/callback", "")
	zz.Assume(zz.And(req.Host != "", !strings.Contains(req.Host, ":")))
	state, si := pick("state")
	code, errParam := zz.NondetString("code"), ""
	if zz.NondetBool("error.param") {
		errParam = zz.NondetString("error")
	}
	q := url.Values{}
	q.Set("state", state)
	q.Set("code", code)
	if errParam != "" {
		q.Set("error", errParam)
	}
	zz.SetForm(req, q, nil, zz.NondetBool("form.malformed"))
	ci := -2
	cookieVal := ""
	if zz.NondetBool("csrf.cookie.present") {
		cookieVal, ci = pick("csrf")
		zz.Assume(verifCookieValueOK(cookieVal))
		req.Header.Set("Cookie", zz.CookieLine(&http.Cookie{Name: verifCookieName + "_csrf", Value: cookieVal}))
	}
	// a forged value that happens to equal a sealed one IS that sealed value
	for k, s := range sealed {
		if si == -1 && state == s {
			si = k
		}
		if ci == -1 && cookieVal == s {
			ci = k
		}
	}
	rec := zz.NewRecorder()
	env.P.OAuthCallback(rec, req)
	tEnd := time.Now()

	var s1 sessions.SessionState
	saved := false
	if ck := verifSessionCookie(rec, verifCookieName); ck != nil && ck.Value != "" {
		saved = env.Cipher.Unmarshal(ck.Value, &s1) == nil
	}
	a := env.Auth
	redeemed := zz.And(a.Redeem.Called == 1, !a.Redeem.NetErr, a.Redeem.Status == 200, !a.Redeem.BadJSON, a.RedeemBody.Email != "")
	if saved {
		zz.Reach("session-set")
		zz.Assert(si >= 0 && ci >= 0, "C06.session only if state and cookie were both sealed by this proxy")
		zz.Assert(state != cookieVal, "C06.session only if state and cookie are different ciphertexts")
		if si >= 0 && ci >= 0 {
			zz.Assert(*recs[si] == *recs[ci], "C06.session only if state and cookie open to the same flow record")
			zz.Assert(rec.H.Get("Location") == recs[si].RedirectURI, "C06.redirect goes to exactly the URI recorded at flow start")
		}
		zz.Assert(redeemed, "C06.session only if the authenticator redeemed the code with a non-empty email")
		zz.Assert(zz.And(code != "", errParam == ""), "C06.session only with a code and no error parameter")
		zz.Assert(s1.AuthorizedUpstream == req.Host, "C06.session is bound to the request's Host")
		zz.Assert(zz.And(s1.Email == a.RedeemBody.Email, s1.AccessToken == a.RedeemBody.AccessToken, s1.ProviderSlug == verifSlug), "C06.session holds the redeemed identity and this provider's slug")
		zz.Assert(!s1.LifetimeDeadline.After(tEnd.Add(env.LifetimeTTL)), "C04.login stamps LifetimeDeadline at most lifetime TTL ahead")
		zz.Assert(rec.Status() == 302, "C06.success is a redirect")
		// C11 any-of: at least one configured rule admits the user
		any := false
		pf := a.Profile
		inGroup := false
		for _, g := range a.ProfileBody.Groups {
			for _, al := range pol.Groups {
				inGroup = zz.Or(inGroup, g == al)
			}
		}
		grpOK := zz.And(len(pol.Groups) > 0, zz.Or(len(pol.Groups) == 1 && pol.Groups[0] == "*", zz.And(pf.Called >= 1, !pf.NetErr, pf.Status == 200, !pf.BadJSON, inGroup)))
		any = grpOK
		probe := &sessions.SessionState{Email: s1.Email}
		for _, v := range verifEmailValidators(pol) {
			any = zz.Or(any, v.Validate(probe) == nil)
		}
		zz.Assert(any, "C11.login admits only if at least one configured rule accepts")
	} else {
		zz.Reach("no-session")
		st := rec.Status()
		zz.Assert(zz.Or(st == 400, st == 403, st == 500), "C06.every other outcome is an error page")
		// C11 any-of, other direction: a clean flow with an accepted user is admitted
		cleanFlow := zz.And(si >= 0, ci >= 0, state != cookieVal, errParam == "", code != "", redeemed)
		if si >= 0 && ci >= 0 {
			cleanFlow = zz.And(cleanFlow, *recs[si] == *recs[ci])
		}
		probe := &sessions.SessionState{Email: a.RedeemBody.Email}
		emailOK := false
		for _, v := range verifEmailValidators(pol) {
			emailOK = zz.Or(emailOK, v.Validate(probe) == nil)
		}
		zz.ReachIf(zz.And(cleanFlow, !emailOK), "denied-by-rules")
		zz.Assert(zz.Implies(cleanFlow, !emailOK), "C11.login refuses a clean flow only if no email rule accepts")
	}
	for _, ck := range rec.SetCookies() {
		zz.Assert(zz.Or(ck.Value == "", saved), "C06.no cookie with a value is set unless the session is")
	}
}
