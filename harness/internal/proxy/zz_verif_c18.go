package proxy

import (
	"net/http"
	"time"

	zz "github.com/buzzfeed/sso/internal/zzverif"
)

func init() { VerifHarnesses["VerifC18Responses"] = VerifC18Responses }

var verifProtected = []string{"X-Content-Type-Options", "X-Frame-Options", "X-Xss-Protection"}

const verifHSTS = "Strict-Transport-Security"

// VerifC18Responses: the response a client receives from the real middleware stack, for
// proxied content (an upstream that sets, duplicates or omits the protected headers),
// redirects and error pages, with and without header_overrides, the timeout handler,
// secure cookies and plain-HTTP requests.
func VerifC18Responses() {
	zz.ClockMaxAdvance(time.Hour)
	secure := zz.NondetBool("cookie.secure")
	httpOnly := zz.NondetBool("cookie.httponly")
	var overrides map[string]string
	ovKey := ""
	switch zz.Choose("override", 4) {
	case 1:
		ovKey = "X-Frame-Options"
	case 2:
		ovKey = "X-Xss-Protection"
	case 3:
		ovKey = "X-Other"
	}
	ovVal := ""
	if ovKey != "" {
		ovVal = zz.NondetString("override.value")
		overrides = map[string]string{ovKey: ovVal}
	}
	pol := verifPolicy{Regexes: 1, Domains: []string{"*"}}
	env := verifNewChainEnv(pol, verifChainOpts{SkipSigning: true, Timeout: zz.NondetBool("upstream.timeout.configured"), Overrides: overrides, CookieSecure: secure})
	env.Store.CookieHTTPOnly = httpOnly
	domain := ""
	if zz.NondetBool("cookie.domain.configured") {
		domain = zz.NondetString("cookie.domain")
		zz.Assume(domain != "")
	}
	env.Store.CookieDomain = domain
	req := verifRequest()
	bareHost := req.Host
	if zz.NondetBool("req.host.hasport") {
		req.Host = zz.HostPort(bareHost, "8443")
	}
	if zz.NondetBool("req.https") {
		req.URL.Scheme = "https"
	}
	if zz.NondetBool("req.xfp") {
		req.Header.Set("X-Forwarded-Proto", zz.NondetString("req.xfp.value"))
	}
	isHTTPS := zz.Or(req.URL.Scheme == "https", req.Header.Get("X-Forwarded-Proto") == "https")
	// what the upstream answers: 0..2 values for each protected header and HSTS
	up := zz.Upstream
	up.Fail = zz.NondetBool("upstream.drops.the.connection") // bad gateway: the proxy answers 502 itself
	nUp := zz.Choose("upstream.header.values", 3)
	for _, k := range append(append([]string(nil), verifProtected...), verifHSTS) {
		for i := 0; i < nUp; i++ {
			up.RespHeader.Add(k, zz.NondetString("upstream."+k))
		}
	}
	// the visitor: an authenticated session (content is proxied), or none (redirect / error / skip-auth)
	if zz.NondetBool("with.session") {
		sess := verifFreshSession(env, req.Host, 0)
		req.Header.Set("Cookie", zz.CookieLine(&http.Cookie{Name: verifCookieName, Value: env.Cipher.Preload("cookie", sess)}))
	}
	path, query, host := req.URL.Path, req.URL.RawQuery, req.Host
	rec := zz.NewRecorder()
	env.P.Handler().ServeHTTP(rec, req)

	proxied := zz.Upstream.Calls > 0
	zz.ReachIf(proxied, "proxied-content")
	zz.ReachIf(rec.Status() == 302, "redirect-page")
	zz.ReachIf(rec.Status() == 403, "error-page")
	zz.ReachIf(rec.Status() == 502, "bad-gateway")
	h := rec.H
	// the three always-on headers: exactly the override if configured, else exactly the proxy's value
	for _, k := range verifProtected {
		want := securityHeaders[http.CanonicalHeaderKey(k)]
		if k == "X-Xss-Protection" {
			want = securityHeaders["X-XSS-Protection"]
		}
		if ovKey == k {
			want = ovVal
		}
		zz.Assert(verifHeaderIs(h, k, want), "C18."+k+" carries exactly the proxy's (or the configured override's) value")
	}
	if secure {
		zz.Assert(zz.Implies(!isHTTPS, zz.And(rec.Status() == 301, !proxied)), "C18.plain HTTP with secure cookies is redirected, not served")
		if !isHTTPS {
			zz.Reach("https-redirect")
			wantLoc := "https://" + host + path
			locOK := zz.Ite(query == "", h.Get("Location") == wantLoc, h.Get("Location") == wantLoc+"?"+query)
			zz.Assert(locOK, "C18.https redirect keeps host, path and query")
		}
		zz.Assert(verifHeaderIs(h, verifHSTS, "max-age=31536000"), "C18.HSTS carries exactly the proxy's value")
	}
	// cookies set through the store
	wantDomain := bareHost
	if domain != "" {
		wantDomain = domain
	}
	for _, c := range rec.SetCookies() {
		zz.Reach("set-cookie")
		zz.Assert(zz.And(c.Path == "/", c.Domain == wantDomain, c.HttpOnly == httpOnly, c.Secure == secure), "C18.cookie has path /, the configured or request domain, and the configured HttpOnly/Secure flags")
	}
}
