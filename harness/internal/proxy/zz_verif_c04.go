package proxy

import (
	"net/http"
	"time"

	"github.com/buzzfeed/sso/internal/pkg/sessions"
	zz "github.com/buzzfeed/sso/internal/zzverif"
)

func init() {
	VerifHarnesses["VerifC04Step"] = VerifC04Step
	VerifHarnesses["VerifC05Step"] = VerifC05Step
}

// VerifC04Step / VerifC05Step: ONE request carrying an arbitrary genuine cookie through the
// real Proxy -> Authenticate -> SingleFlightProvider -> SSOProvider, with arbitrary clock
// readings, TTLs and authenticator answers. Because the cookie's content is arbitrary, the
// step covers request histories of any length (the cookie is the only per-browser state).
func VerifC04Step() { verifSessionStep(true, false) }
func VerifC05Step() { verifSessionStep(false, true) }

func verifSessionStep(c04, c05 bool) {
	var pol verifPolicy
	groupsPolicy := zz.Choose("pol.groups", 2) == 1
	if groupsPolicy {
		pol.Groups = verifStrings("pol.grp", 1)
	} else {
		pol.Domains = []string{"*"}
	}
	env := verifNewEnv(pol)
	req := verifRequest()
	host := req.Host
	// the kind of request does not matter for what is due: protocol-upgrade handshakes included
	if zz.NondetBool("req.upgrade") {
		req.Header.Set("Connection", "Upgrade")
		req.Header.Set("Upgrade", "websocket")
	}
	sess := verifSession("sess", zz.Choose("sess.ngroups", 2))
	s0 := verifCopySession(sess)
	sealed := env.Cipher.Preload("cookie", sess)
	req.Header.Set("Cookie", zz.CookieLine(&http.Cookie{Name: verifCookieName, Value: sealed}))
	// past the first three rungs, which C01 covers: right provider, right host
	zz.Assume(s0.ProviderSlug == verifSlug)
	zz.Assume(s0.AuthorizedUpstream == host)

	rec := zz.NewRecorder()
	t0 := time.Now()
	env.P.Proxy(rec, req)
	tEnd := time.Now()

	a := env.Auth
	served := env.Reached > 0
	// the session cookie of the response, re-opened with the proxy's key
	var s1 sessions.SessionState
	saved, cleared := false, false
	if c := verifSessionCookie(rec, verifCookieName); c != nil {
		if c.Value == "" {
			cleared = c.Expires.Before(tEnd) // expiry already in the past when the response is complete
		} else {
			saved = env.Cipher.Unmarshal(c.Value, &s1) == nil
		}
	}

	G0, L0, R0, V0 := s0.GracePeriodStart, s0.LifetimeDeadline, s0.RefreshDeadline, s0.ValidDeadline
	lifetimeGone := L0.Before(t0)                         // expired already when the request arrived
	lifetimeLeft := !L0.Before(tEnd)                      // not expired even when it finished
	refreshDue := zz.And(lifetimeLeft, R0.Before(t0))     // certainly takes the refresh rung
	validDue := zz.And(lifetimeLeft, !R0.Before(tEnd), V0.Before(t0)) // certainly takes the validation rung
	noneDue := zz.And(lifetimeLeft, !R0.Before(tEnd), !V0.Before(tEnd))

	// classification of the authenticator's answers
	grpTrivial := !groupsPolicy
	if groupsPolicy {
		grpTrivial = pol.Groups[0] == "*"
	}
	inAllowed := false
	if groupsPolicy {
		for _, g := range a.ProfileBody.Groups {
			inAllowed = zz.Or(inAllowed, g == pol.Groups[0])
		}
	}
	rf, vl, pf := a.Refresh, a.Validate, a.Profile
	rfOK := zz.And(rf.Called == 1, !rf.NetErr, rf.Status == 201, !rf.BadJSON)
	rfUnavail := zz.And(rf.Called == 1, !rf.NetErr, zz.Or(rf.Status == 429, rf.Status == 503))
	vlOK := zz.And(vl.Called == 1, !vl.NetErr, vl.Status == 200)
	vlUnavail := zz.And(vl.Called == 1, !vl.NetErr, zz.Or(vl.Status == 429, vl.Status == 503))
	pfOK := zz.And(pf.Called == 1, !pf.NetErr, pf.Status == 200, !pf.BadJSON, inAllowed)
	pfDenied := zz.And(pf.Called == 1, !pf.NetErr, pf.Status == 200, !pf.BadJSON, !inAllowed)
	pfUnavail := zz.And(pf.Called == 1, !pf.NetErr, zz.Or(pf.Status == 429, pf.Status == 503))
	grpOK := zz.Or(grpTrivial, pfOK)
	// a session that still has a refresh token (without one the refresh rung refuses before asking)
	hasRT := s0.RefreshToken != ""

	confirmedRefresh := zz.And(rfOK, grpOK)
	confirmedValid := zz.And(vlOK, grpOK)
	outageRefresh := zz.Or(rfUnavail, zz.And(rfOK, !grpTrivial, pfUnavail))
	outageValid := zz.Or(vlUnavail, zz.And(vlOK, !grpTrivial, pfUnavail))
	// grace: the start is the recorded one, or this very failure if none was recorded
	graceOpen := zz.Or(G0.IsZero(), G0.Add(env.GraceTTL).After(t0))   // not certainly over
	graceShut := zz.And(!G0.IsZero(), !G0.Add(env.GraceTTL).After(t0)) // certainly over (now >= t0)

	zz.ReachIf(zz.And(served, refreshDue, confirmedRefresh), "served-after-refresh")
	zz.ReachIf(zz.And(served, validDue, confirmedValid), "served-after-validate")
	zz.ReachIf(zz.And(served, refreshDue, outageRefresh), "served-in-grace-refresh")
	zz.ReachIf(zz.And(served, validDue, outageValid), "served-in-grace-validate")
	zz.ReachIf(zz.And(served, noneDue), "served-nothing-due")
	zz.ReachIf(zz.And(!served, validDue, outageValid, graceShut), "refused-grace-over")
	zz.ReachIf(zz.And(!served, validDue, pfDenied), "refused-group-removed")
	zz.ReachIf(zz.And(!served, refreshDue, rf.Status == 401), "refused-revoked")
	zz.ReachIf(lifetimeGone, "lifetime-gone")

	if c04 {
		// (1) the lifetime bound is never moved, by any path
		zz.Assert(zz.Implies(saved, s1.LifetimeDeadline.Equal(L0)), "C04.saved session keeps LifetimeDeadline")
		zz.Assert(zz.Implies(saved, zz.And(s1.Email == s0.Email, s1.ProviderSlug == s0.ProviderSlug, s1.AuthorizedUpstream == s0.AuthorizedUpstream, s1.RefreshToken == s0.RefreshToken)),
			"C04.saved session keeps identity, slug, host binding and refresh token")
		// (2) honoured only within the lifetime
		zz.Assert(zz.Implies(served, !lifetimeGone), "C04.served only within lifetime")
		zz.Assert(zz.Implies(lifetimeGone, zz.And(!served, cleared, rf.Called+vl.Called+pf.Called == 0)), "C04.expired lifetime: refused, cleared, authenticator not asked")
		// (3) a due check must be confirmed (or fall under the outage rule, bounded by C05)
		zz.Assert(zz.Implies(zz.And(served, refreshDue), zz.Or(confirmedRefresh, zz.And(outageRefresh, graceOpen))), "C04.served after due refresh only if confirmed or outage grace")
		zz.Assert(zz.Implies(zz.And(served, validDue), zz.Or(confirmedValid, zz.And(outageValid, graceOpen))), "C04.served after due validation only if confirmed or outage grace")
		// (4) denial is effective
		deniedRefresh := zz.And(refreshDue, zz.Or(!hasRT, rf.NetErr, zz.And(rf.Status != 201, rf.Status != 429, rf.Status != 503), zz.And(rf.Status == 201, rf.BadJSON), zz.And(rfOK, !grpTrivial, pfDenied)))
		deniedValid := zz.And(validDue, zz.Or(vl.NetErr, zz.And(vl.Status != 200, vl.Status != 429, vl.Status != 503), zz.And(vlOK, !grpTrivial, pfDenied)))
		zz.Assert(zz.Implies(zz.Or(deniedRefresh, deniedValid), zz.And(!served, cleared, !saved)), "C04.denied check: refused, upstream not reached, cookie cleared")
		zz.Assert(zz.Implies(zz.And(refreshDue, hasRT, !rf.NetErr, rf.Status == 401), rec.Status() == 401), "C04.revoked token answers 401")
		zz.Assert(zz.Implies(!served, zz.Or(cleared, rec.Status() == 500)), "C04.every refusal clears the cookie")
		// (5) a confirmed check moves only its own deadline, and by at most the TTL
		zz.Assert(zz.Implies(zz.And(served, validDue, confirmedValid), zz.And(saved, !s1.ValidDeadline.After(tEnd.Add(env.ValidTTL)), s1.RefreshDeadline.Equal(R0), s1.AccessToken == s0.AccessToken)),
			"C04.validation extends only ValidDeadline, by at most the valid TTL")
		exp := time.Duration(a.RefreshBody.ExpiresIn) * time.Second
		zz.Assert(zz.Implies(zz.And(served, refreshDue, confirmedRefresh), zz.And(saved, !s1.RefreshDeadline.After(tEnd.Add(exp)), s1.ValidDeadline.Equal(V0), s1.AccessToken == a.RefreshBody.AccessToken)),
			"C04.refresh extends only RefreshDeadline, by the token's expires_in, and stores the new token")
		zz.Assert(zz.Implies(zz.And(served, validDue, !confirmedValid), !s1.ValidDeadline.After(tEnd.Add(env.ValidTTL))), "C04.after an outage answer the next validation still falls due within the valid TTL")
		zz.Assert(zz.Implies(zz.And(served, refreshDue, !confirmedRefresh), !s1.RefreshDeadline.After(tEnd.Add(env.ValidTTL))), "C04.after an outage answer the next refresh falls due within the valid TTL")
		zz.Assert(zz.Implies(zz.And(served, noneDue), zz.And(rf.Called+vl.Called+pf.Called == 0, !saved)), "C04.nothing due: no authenticator call, cookie untouched")
	}
	if c05 {
		servedUnconfirmedRefresh := zz.And(served, refreshDue, !confirmedRefresh)
		servedUnconfirmedValid := zz.And(served, validDue, !confirmedValid)
		// (1) only 429/503, only within grace, never past the lifetime
		zz.Assert(zz.Implies(servedUnconfirmedRefresh, zz.And(outageRefresh, graceOpen, !lifetimeGone)), "C05.unconfirmed refresh served only for 429/503 within grace and lifetime")
		zz.Assert(zz.Implies(servedUnconfirmedValid, zz.And(outageValid, graceOpen, !lifetimeGone)), "C05.unconfirmed validation served only for 429/503 within grace and lifetime")
		// (2) the first failure stamps the start, later ones keep it
		stampOK := zz.Ite(G0.IsZero(), zz.And(!s1.GracePeriodStart.Before(t0), !s1.GracePeriodStart.After(tEnd)), s1.GracePeriodStart.Equal(G0))
		zz.Assert(zz.Implies(zz.Or(servedUnconfirmedRefresh, servedUnconfirmedValid), zz.And(saved, stampOK)), "C05.grace start is the first failure and is never moved")
		// (3) grace over, or any other failure class: refused and cleared
		zz.Assert(zz.Implies(zz.And(zz.Or(zz.And(refreshDue, hasRT, outageRefresh), zz.And(validDue, outageValid)), graceShut), zz.And(!served, cleared)), "C05.outage past the grace TTL: refused and cleared")
		otherFailure := zz.Or(
			zz.And(refreshDue, hasRT, zz.Or(rf.NetErr, zz.And(rf.Status != 201, rf.Status != 429, rf.Status != 503), zz.And(rf.Status == 201, rf.BadJSON))),
			zz.And(validDue, zz.Or(vl.NetErr, zz.And(vl.Status != 200, vl.Status != 429, vl.Status != 503))),
			zz.And(zz.Or(zz.And(refreshDue, rfOK), zz.And(validDue, vlOK)), !grpTrivial, zz.Or(pf.NetErr, zz.And(pf.Status != 200, pf.Status != 429, pf.Status != 503), zz.And(pf.Status == 200, pf.BadJSON))))
		zz.ReachIf(otherFailure, "other-failure")
		zz.Assert(zz.Implies(otherFailure, zz.And(!served, cleared)), "C05.other failures get no grace whatever the grace start")
		// (4) one successful check ends the episode
		zz.Assert(zz.Implies(zz.And(served, zz.Or(zz.And(refreshDue, confirmedRefresh), zz.And(validDue, confirmedValid))), zz.And(saved, s1.GracePeriodStart.IsZero())), "C05.successful check resets the grace start")
		// (5) under grace the next check falls due within the valid TTL
		zz.Assert(zz.Implies(servedUnconfirmedValid, !s1.ValidDeadline.After(tEnd.Add(env.ValidTTL))), "C05.grace extends ValidDeadline by at most the valid TTL")
		zz.Assert(zz.Implies(servedUnconfirmedRefresh, !s1.RefreshDeadline.After(tEnd.Add(env.ValidTTL))), "C05.grace extends RefreshDeadline by at most the valid TTL")
		zz.Assert(zz.Implies(zz.Or(servedUnconfirmedRefresh, servedUnconfirmedValid), s1.LifetimeDeadline.Equal(L0)), "C05.grace never moves the lifetime")
	}
}
