package proxy

import (
	"strconv"
	"strings"
	"time"

	"github.com/imdario/mergo"
	zz "github.com/buzzfeed/sso/internal/zzverif"
)

func init() {
	VerifHarnesses["VerifSelftestMergo"] = VerifSelftestMergo
	VerifHarnesses["VerifC14Blocks"] = VerifC14Blocks
	VerifHarnesses["VerifC14Extra"] = VerifC14Extra
	VerifHarnesses["VerifC14ExtraLists"] = VerifC14ExtraLists
	VerifHarnesses["VerifC14TwoServices"] = VerifC14TwoServices
}

func verifDumpOpts(o *OptionsConfig) string {
	if o == nil {
		return "<nil>"
	}
	return "groups=" + strings.Join(o.AllowedGroups, ",") + ";domains=" + strings.Join(o.AllowedEmailDomains, ",") + ";addrs=" + strings.Join(o.AllowedEmailAddresses, ",") +
		";skip=" + strings.Join(o.SkipAuthRegex, ",") + ";tls=" + strconv.FormatBool(o.TLSSkipVerify) + ";preflight=" + strconv.FormatBool(o.SkipAuthPreflight) +
		";host=" + strconv.FormatBool(o.PreserveHost) + ";timeout=" + strconv.FormatInt(int64(o.Timeout), 10) + ";reset=" + strconv.FormatInt(int64(o.ResetDeadline), 10) +
		";slug=" + o.ProviderSlug + ";cookie=" + o.CookieName + ";hdr.a=" + o.HeaderOverrides["X-A"] + ";hdr.b=" + o.HeaderOverrides["X-B"] + ";nhdr=" + strconv.Itoa(len(o.HeaderOverrides))
}

func verifDumpUC(u *UpstreamConfig) string {
	if u == nil {
		return "<nil>"
	}
	extras := ""
	for _, e := range u.ExtraRoutes {
		extras += "[" + e.From + ">" + e.To + ":" + e.Type + ":" + verifDumpOpts(e.Options) + "]"
	}
	return "svc=" + u.Service + ";from=" + u.RouteConfig.From + ";to=" + u.RouteConfig.To + ";type=" + u.RouteConfig.Type + ";opts={" + verifDumpOpts(u.RouteConfig.Options) + "};extras=" + extras +
		";groups=" + strings.Join(u.AllowedGroups, ",") + ";timeout=" + strconv.FormatInt(int64(u.Timeout), 10) + ";cookie=" + u.CookieName + ";tls=" + strconv.FormatBool(u.TLSSkipVerify)
}

// VerifSelftestMergo: translation validation of the mergo.Merge transcription on the three
// call shapes of proxy_config.go with concrete configurations (incl. the shapes of
// proxy_config_test.go: cluster override of from/to, options blocks, extra routes).
func VerifSelftestMergo() {
	full := func() *OptionsConfig {
		return &OptionsConfig{AllowedGroups: []string{"g1", "g2"}, AllowedEmailDomains: []string{"d.example"}, SkipAuthRegex: []string{"^/ok$"}, TLSSkipVerify: true,
			SkipAuthPreflight: true, Timeout: 5 * time.Second, ProviderSlug: "idp", HeaderOverrides: map[string]string{"X-A": "1", "X-B": "2"}}
	}
	// shape 1: resolveUpstreamConfig - Merge(dst, *src, WithOverride)
	cases := []struct {
		name     string
		dst, src *UpstreamConfig
	}{
		{"route-only override", &UpstreamConfig{RouteConfig: RouteConfig{From: "a", To: "b", Options: full()}}, &UpstreamConfig{RouteConfig: RouteConfig{From: "c"}}},
		{"options replaced by pointer", &UpstreamConfig{RouteConfig: RouteConfig{From: "a", To: "b", Options: full()}}, &UpstreamConfig{RouteConfig: RouteConfig{Options: &OptionsConfig{Timeout: time.Second}}}},
		{"empty src", &UpstreamConfig{RouteConfig: RouteConfig{From: "a", To: "b", Type: "rewrite", Options: full()}, ExtraRoutes: []*RouteConfig{{From: "x", To: "y"}}}, &UpstreamConfig{}},
		{"empty dst", &UpstreamConfig{}, &UpstreamConfig{Service: "s", RouteConfig: RouteConfig{From: "a", To: "b", Options: full()}, ExtraRoutes: []*RouteConfig{{From: "x", To: "y"}}, Timeout: 3, TLSSkipVerify: true}},
		{"extras replaced", &UpstreamConfig{ExtraRoutes: []*RouteConfig{{From: "x", To: "y"}, {From: "x2", To: "y2"}}, AllowedGroups: []string{"keep"}}, &UpstreamConfig{ExtraRoutes: []*RouteConfig{{From: "z", To: "w", Options: full()}}}},
		{"false does not override true", &UpstreamConfig{TLSSkipVerify: true, Timeout: 9, CookieName: "c"}, &UpstreamConfig{TLSSkipVerify: false, Timeout: 0, CookieName: ""}},
	}
	for _, tc := range cases {
		err := mergo.Merge(tc.dst, *tc.src, mergo.WithOverride)
		zz.Observe("override:"+tc.name, verifDumpUC(tc.dst)+" err="+strconv.FormatBool(err != nil))
	}
	// shape 2: resolveExtraRoute - Merge(dst, *src) fills gaps; the options pointer is shared or merged
	parent := &UpstreamConfig{Service: "svc", RouteConfig: RouteConfig{From: "a", To: "b", Type: "simple", Options: full()}, ExtraRoutes: []*RouteConfig{{From: "x"}}}
	for i, extra := range []*RouteConfig{
		{From: "x", To: "y"},
		{From: "x", Options: &OptionsConfig{AllowedGroups: []string{"own"}, Timeout: time.Minute}},
		{Type: "rewrite", Options: &OptionsConfig{HeaderOverrides: map[string]string{"X-A": "9"}}},
		{},
	} {
		dst := &UpstreamConfig{RouteConfig: *extra}
		err := mergo.Merge(dst, *parent)
		zz.Observe("fill:"+strconv.Itoa(i), verifDumpUC(dst)+" err="+strconv.FormatBool(err != nil)+" shared="+strconv.FormatBool(dst.RouteConfig.Options == parent.RouteConfig.Options))
	}
	zz.Observe("fill:parent-after", verifDumpUC(parent))
	// shape 3: parseOptionsConfig - defaults then the route's options (pointer source)
	for i, route := range []*OptionsConfig{nil, {}, {AllowedGroups: []string{"route"}}, {HeaderOverrides: map[string]string{"X-B": "route", "X-A": ""}, Timeout: time.Hour, CookieName: "x"}, full()} {
		def := &OptionsConfig{AllowedEmailDomains: []string{"env.example"}, AllowedGroups: []string{"env"}, Timeout: 2 * time.Second, ProviderSlug: "env-idp", CookieName: "_sso", HeaderOverrides: map[string]string{"X-A": "env"}}
		dst := &OptionsConfig{}
		e1 := mergo.Merge(dst, *def, mergo.WithOverride)
		var e2 error
		if route != nil {
			e2 = mergo.Merge(dst, route, mergo.WithOverride)
		}
		zz.Observe("options:"+strconv.Itoa(i), verifDumpOpts(dst)+" err="+strconv.FormatBool(e1 != nil || e2 != nil)+" env-after="+verifDumpOpts(def))
	}
	// argument errors
	var nilOpts *OptionsConfig
	zz.Observe("type-mismatch", mergo.Merge(&OptionsConfig{}, UpstreamConfig{}) != nil)
	zz.Observe("nil-src", mergo.Merge(&OptionsConfig{}, nil) != nil)
	_ = nilOpts
}

// ---- C14 ----

type verifC14Opts struct {
	O      *OptionsConfig
	States int // which restriction lists the block states: 0 none, 1 groups, 2 domains, 3 addresses, 4 skip-auth, 5 all four
}

var verifC14Patterns = []string{"^/ok$", "("} // a pattern that compiles and one that does not

// verifC14Options draws an options block: absent, or present stating a subset of the
// restriction lists (one arbitrary entry each) plus arbitrary unrelated settings.
func verifC14Options(label string, unrelated bool) verifC14Opts {
	if zz.Choose(label+".options.present", 2) == 0 {
		return verifC14Opts{}
	}
	o := &OptionsConfig{}
	st := zz.Choose(label+".options.states", 6)
	entry := func(l string) []string {
		v := zz.NondetString(l)
		zz.Assume(v != "")
		return []string{v}
	}
	if st == 1 || st == 5 {
		o.AllowedGroups = entry(label + ".group")
	}
	if st == 2 || st == 5 {
		o.AllowedEmailDomains = entry(label + ".domain")
	}
	if st == 3 || st == 5 {
		o.AllowedEmailAddresses = entry(label + ".address")
	}
	if st == 4 || st == 5 {
		// one pattern (good or bad), or two with the bad one first or last
		switch zz.Choose(label+".skip.pattern", 4) {
		case 0:
			o.SkipAuthRegex = []string{verifC14Patterns[0]}
		case 1:
			o.SkipAuthRegex = []string{verifC14Patterns[1]}
		case 2:
			o.SkipAuthRegex = []string{verifC14Patterns[1], verifC14Patterns[0]}
		case 3:
			o.SkipAuthRegex = []string{verifC14Patterns[0], verifC14Patterns[1]}
		}
	}
	if unrelated {
		o.Timeout = zz.NondetDuration(label + ".timeout")
		zz.Assume(o.Timeout >= 0)
	}
	o.TLSSkipVerify = zz.NondetBool(label + ".tls_skip_verify")
	return verifC14Opts{O: o, States: st}
}

// verifC14Host draws a from/to value: not stated, or a host name peculiar to its position. Which block's
// value wins depends only on whether a value is stated and on its identity; route syntax
// (what url.Parse / regexp.Compile make of the text) is C13's subject.
func verifC14Host(label string) string {
	if zz.Choose(label, 2) == 0 {
		return ""
	}
	// a host name of its own per position in the document
	return strings.Replace(label, ".", "-", -1) + ".example.test"
}

// first stated list, most specific block first
func verifC14First(lists ...[]string) []string {
	for _, l := range lists {
		if len(l) != 0 {
			return l
		}
	}
	return nil
}

func verifSameList(a, b []string) bool {
	if len(a) != len(b) {
		return false
	}
	same := true
	for i := range a {
		same = zz.And(same, a[i] == b[i])
	}
	return same
}

func verifOptLists(o *OptionsConfig) (groups, domains, addrs, skip []string) {
	if o == nil {
		return nil, nil, nil, nil
	}
	return o.AllowedGroups, o.AllowedEmailDomains, o.AllowedEmailAddresses, o.SkipAuthRegex
}

// VerifC14Blocks / VerifC14Extra: SetUpstreamConfigs -> loadServiceConfigs on an arbitrary
// document of the documented shape: one service with a default block and/or a block for
// the selected cluster, each with arbitrary from/to/type and an optional options block
// (Blocks), or one block with an extra route (Extra), or both blocks with extra routes and
// no options (ExtraLists); arbitrary environment defaults.
func VerifC14Blocks()     { verifC14Resolve(0) }
func VerifC14Extra()      { verifC14Resolve(1) }
func VerifC14ExtraLists() { verifC14Resolve(2) }

func verifC14Resolve(mode int) {
	str := verifC14Host
	block := func(label string, types []string) (*UpstreamConfig, verifC14Opts, *RouteConfig, verifC14Opts) {
		var o verifC14Opts
		if mode != 2 {
			o = verifC14Options(label, mode == 0)
		}
		uc := &UpstreamConfig{RouteConfig: RouteConfig{From: str(label + ".from"), To: str(label + ".to"), Type: types[zz.Choose(label+".type", len(types))], Options: o.O}}
		var extra *RouteConfig
		var eo verifC14Opts
		if mode == 1 || (mode == 2 && zz.Choose(label+".extra_routes", 2) == 1) {
			if mode == 1 {
				eo = verifC14Options(label+".extra", false)
			}
			extra = &RouteConfig{From: str(label + ".extra.from"), To: str(label + ".extra.to"), Type: types[zz.Choose(label+".extra.type", len(types))], Options: eo.O}
			uc.ExtraRoutes = []*RouteConfig{extra}
		}
		return uc, o, extra, eo
	}
	blocks := map[string]*UpstreamConfig{}
	var def, clu *UpstreamConfig
	var defO, cluO, defEO, cluEO verifC14Opts
	var defE, cluE *RouteConfig
	shape := 2 // default only, cluster only, both
	if mode == 0 {
		shape = zz.Choose("blocks", 3)
	} else if mode == 1 {
		shape = zz.Choose("blocks", 2)
	}
	if shape != 1 {
		def, defO, defE, defEO = block("default", []string{"", "rewrite"})
		blocks["default"] = def
	}
	if shape != 0 {
		clu, cluO, cluE, cluEO = block("cluster", []string{"", "simple", "rewrite", "bogus"})
		blocks["prod"] = clu
	}
	svcName := str("service")
	// white-space cleaning of the service name (regexp substitution) is uninterpreted: names without white space
	zz.Assume(zz.And(!strings.Contains(svcName, " "), !strings.Contains(svcName, "\t"), !strings.Contains(svcName, "\n"), !strings.Contains(svcName, "\r")))
	doc := []*ServiceConfig{{Service: svcName, ClusterConfigs: blocks}}
	// deployment defaults from the environment
	env := DefaultConfig{ProviderSlug: "env-idp"}
	envStates := zz.Choose("env.states", 3) // none, a default domain, a default group
	if envStates == 1 {
		env.EmailConfig.AllowedDomains = []string{"env.example"}
	} else if envStates == 2 {
		env.AllowedGroups = []string{"env-group"}
	}
	ucs := &UpstreamConfigs{DefaultConfig: env, ConfigsFile: zz.YAMLFile(doc), testTemplateVars: map[string]string{}, Cluster: "prod", Scheme: "https"}
	svc := &ServerConfig{}
	err := SetUpstreamConfigs(ucs, CookieConfig{Name: "_sso_proxy"}, svc)
	if err != nil {
		zz.Reach("rejected")
		return
	}
	zz.Reach("loaded")
	got := ucs.upstreamConfigs

	// the specification: field by field, the most specific block that states a setting wins
	pick := func(c, d string) string { // cluster value if stated, else the default block's
		if c != "" {
			return c
		}
		return d
	}
	var dFrom, dTo, dType, cFrom, cTo, cType string
	if def != nil {
		dFrom, dTo, dType = def.RouteConfig.From, def.RouteConfig.To, def.RouteConfig.Type
	}
	if clu != nil {
		cFrom, cTo, cType = clu.RouteConfig.From, clu.RouteConfig.To, clu.RouteConfig.Type
	}
	dG, dD, dA, dS := verifOptLists(defO.O)
	cG, cD, cA, cS := verifOptLists(cluO.O)
	envG, envD := env.AllowedGroups, env.EmailConfig.AllowedDomains
	// extra routes: the cluster block's list replaces the default block's when it states one
	extra, extraO := defE, defEO
	if cluE != nil {
		extra, extraO = cluE, cluEO
	}
	wantN := 1
	if extra != nil {
		wantN = 2
	}
	zz.Assert(len(got) == wantN, "C14.one upstream for the service plus one per extra route of the resolved block")
	if len(got) != wantN {
		return
	}
	// the options of the default block and of the cluster block are both present: the scenario of the
	// recorded finding (mergo replaces the pointer-typed options wholesale); its assertions carry their own labels
	sc := ""
	if defO.O != nil && cluO.O != nil {
		sc = " [default and cluster block both carry options]"
	}
	check := func(u *UpstreamConfig, who string, from, to, typ string, groups, domains, addrs, skip []string) {
		// fail-closed
		zz.Assert(zz.And(u.Service != "", u.RouteConfig.From != "", u.RouteConfig.To != ""), "C14.a loaded "+who+" has a service name, from and to")
		okRoute := false
		switch r := u.Route.(type) {
		case *SimpleRoute:
			okRoute = (typ == "" || typ == "simple") && r != nil && r.FromURL != nil && r.ToURL != nil
		case *RewriteRoute:
			okRoute = typ == "rewrite" && r != nil && r.FromRegex != nil && r.ToTemplate != nil
		}
		zz.Assert(okRoute, "C14.a loaded "+who+" has a valid route of its configured type")
		zz.Assert(len(u.AllowedGroups)+len(u.AllowedEmailDomains)+len(u.AllowedEmailAddresses) > 0, "C14.a loaded "+who+" has at least one allow rule")
		compiled := true
		for _, re := range u.SkipAuthCompiledRegex {
			compiled = compiled && re != nil
		}
		zz.Assert(compiled && len(u.SkipAuthCompiledRegex) == len(skip), "C14.a loaded "+who+" has every listed skip-auth pattern compiled"+sc)
		for _, p := range skip {
			zz.Assert(p != verifC14Patterns[1], "C14.a "+who+" with a skip-auth pattern that does not compile is rejected"+sc)
		}
		// field by field
		zz.Assert(zz.And(u.RouteConfig.From == from, u.RouteConfig.To == to, u.RouteConfig.Type == typ), "C14."+who+": from/to/type are the most specific stated values")
		zz.Assert(verifSameList(u.AllowedGroups, groups), "C14."+who+": allowed_groups stated in a less specific block stay in force unless replaced"+sc)
		zz.Assert(verifSameList(u.AllowedEmailDomains, domains), "C14."+who+": allowed_email_domains stated in a less specific block stay in force unless replaced"+sc)
		zz.Assert(verifSameList(u.AllowedEmailAddresses, addrs), "C14."+who+": allowed_email_addresses stated in a less specific block stay in force unless replaced"+sc)
	}
	from, to, typ := pick(cFrom, dFrom), pick(cTo, dTo), pick(cType, dType)
	bG, bD, bA, bS := verifC14First(cG, dG), verifC14First(cD, dD), verifC14First(cA, dA), verifC14First(cS, dS) // the resolved block's own statements
	check(got[0], "upstream", from, to, typ, verifC14First(bG, envG), verifC14First(bD, envD), bA, bS)
	if extra != nil {
		zz.Reach("extra-route")
		eG, eD, eA, eS := verifOptLists(extraO.O)
		check(got[1], "extra route", pick(extra.From, from), pick(extra.To, to), pick(extra.Type, typ),
			verifC14First(eG, bG, envG), verifC14First(eD, bD, envD), verifC14First(eA, bA), verifC14First(eS, bS))
	}
	zz.ReachIf(shape == 2, "both-blocks")
}

// VerifC14TwoServices: two services (arbitrary names, possibly equal), each with a default
// block and its own options: every loaded upstream is valid and carries ITS OWN statements
// (or the environment default) - nothing leaks from one service to the next.
func VerifC14TwoServices() {
	var doc []*ServiceConfig
	var opts [2]verifC14Opts
	var froms, tos, names [2]string
	for i := 0; i < 2; i++ {
		label := "svc" + strconv.Itoa(i)
		opts[i] = verifC14Options(label, false)
		names[i] = zz.NondetString(label + ".name")
		zz.Assume(zz.And(!strings.Contains(names[i], " "), !strings.Contains(names[i], "\t"), !strings.Contains(names[i], "\n"), !strings.Contains(names[i], "\r")))
		froms[i], tos[i] = verifC14Host(label+".from"), verifC14Host(label+".to")
		doc = append(doc, &ServiceConfig{Service: names[i], ClusterConfigs: map[string]*UpstreamConfig{
			"default": {RouteConfig: RouteConfig{From: froms[i], To: tos[i], Options: opts[i].O}}}})
	}
	env := DefaultConfig{ProviderSlug: "env-idp"}
	if zz.Choose("env.states", 2) == 1 {
		env.EmailConfig.AllowedDomains = []string{"env.example"}
	}
	ucs := &UpstreamConfigs{DefaultConfig: env, ConfigsFile: zz.YAMLFile(doc), testTemplateVars: map[string]string{}, Cluster: "prod", Scheme: "https"}
	if err := SetUpstreamConfigs(ucs, CookieConfig{Name: "_sso_proxy"}, &ServerConfig{}); err != nil {
		zz.Reach("rejected")
		return
	}
	zz.Reach("loaded")
	got := ucs.upstreamConfigs
	zz.Assert(len(got) == 2, "C14.one upstream per service")
	if len(got) != 2 {
		return
	}
	for i, u := range got {
		g, d, a, s := verifOptLists(opts[i].O)
		zz.Assert(zz.And(u.Service != "", u.RouteConfig.From == froms[i], u.RouteConfig.To == tos[i], froms[i] != "", tos[i] != ""), "C14.each of two services keeps its own service, from and to")
		zz.Assert(len(u.AllowedGroups)+len(u.AllowedEmailDomains)+len(u.AllowedEmailAddresses) > 0, "C14.each of two loaded services has at least one allow rule")
		zz.Assert(verifSameList(u.AllowedGroups, g), "C14.each of two services has exactly its own allowed_groups")
		zz.Assert(verifSameList(u.AllowedEmailDomains, verifC14First(d, env.EmailConfig.AllowedDomains)), "C14.each of two services has its own allowed_email_domains or the environment default")
		zz.Assert(verifSameList(u.AllowedEmailAddresses, a), "C14.each of two services has exactly its own allowed_email_addresses")
		zz.Assert(len(u.SkipAuthCompiledRegex) == len(s), "C14.each of two services has exactly its own skip-auth patterns compiled")
		for _, p := range s {
			zz.Assert(p != verifC14Patterns[1], "C14.a service with a skip-auth pattern that does not compile is rejected")
		}
	}
	zz.ReachIf(names[0] == names[1], "same-name")
}
