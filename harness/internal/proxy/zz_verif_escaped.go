package proxy

// Request targets that NEED percent-encoding. The symbolic request model uses paths that need
// no escaping; here the target is one of a few literal shapes (so net/url's own escaping and
// parsing code is what computes every derived string, also under the executor) while the
// rest of the request stays symbolic.

import (
	"net/http"
	"net/url"
	"strings"

	zz "github.com/buzzfeed/sso/internal/zzverif"
)

func init() {
	VerifHarnesses["VerifC06StartEscaped"] = VerifC06StartEscaped
	VerifHarnesses["VerifC18UpgradeEscaped"] = VerifC18UpgradeEscaped
}

var verifEscapedTargets = []string{
	"/%2Fevil.example.org/login", // decoded path begins with "//"
	"/docs/a%2Fb/c?x=1&y=%2F",    // encoded slash inside a segment
	"/reports/q1%20summary.pdf",  // space
	"/%5Cevil.example.org/",      // backslash
	"/caf%C3%A9?next=%2F%2Fx",    // non-ASCII, encoded slashes in the query
}

func verifEscapedRequest(method string) (*http.Request, string) {
	target := verifEscapedTargets[zz.Choose("req.target", len(verifEscapedTargets))]
	u, err := url.ParseRequestURI(target)
	if err != nil {
		panic(err)
	}
	return &http.Request{Method: method, Host: "app.sso.test", URL: u, Header: http.Header{}, RequestURI: target}, target
}

// VerifC06StartEscaped: the flow record of a request whose target contains escapes is that
// very target (escapes preserved) and is same-site.
func VerifC06StartEscaped() {
	env := verifNewEnv(verifPolicy{Domains: []string{"*"}})
	rp := &verifRecProvider{Provider: env.P.provider}
	env.P.provider = rp
	req, target := verifEscapedRequest("GET")
	rec := zz.NewRecorder()
	env.P.Proxy(rec, req) // no cookie: starts a flow
	zz.Assert(rec.Status() == 302 && rp.Calls == 1, "C06.start redirects to the provider (escaped target)")
	var csrf *http.Cookie
	for _, c := range rec.SetCookies() {
		if c.Name == verifCookieName+"_csrf" {
			csrf = c
		}
	}
	if csrf == nil {
		zz.Assert(false, "C06.start sets the CSRF cookie (escaped target)")
		return
	}
	var fromCookie, fromState StateParameter
	e1 := env.Cipher.Unmarshal(csrf.Value, &fromCookie)
	e2 := env.Cipher.Unmarshal(rp.State, &fromState)
	zz.Assert(e1 == nil && e2 == nil && fromCookie == fromState, "C06.cookie and state open to the same flow record (escaped target)")
	zz.Assert(fromState.RedirectURI == target, "C06.the recorded URI is this request's own target, escapes preserved")
	zz.Assert(zz.And(strings.HasPrefix(fromState.RedirectURI, "/"), !strings.HasPrefix(fromState.RedirectURI, "//"), !strings.HasPrefix(fromState.RedirectURI, "/\\")),
		"C06.the recorded URI of an escaped target is same-site")
	zz.Reach("flow-started")
}

// VerifC18UpgradeEscaped: the https upgrade of a plain-HTTP request whose target contains
// escapes goes to the same host, the same DECODED path and the same query.
func VerifC18UpgradeEscaped() {
	env := verifNewChainEnv(verifPolicy{Regexes: 1, Domains: []string{"*"}}, verifChainOpts{SkipSigning: true, CookieSecure: true})
	req, _ := verifEscapedRequest([]string{"GET", "POST"}[zz.Choose("req.method", 2)])
	if zz.NondetBool("req.xfp") {
		v := zz.NondetString("req.xfp.value")
		zz.Assume(v != "https")
		req.Header.Set("X-Forwarded-Proto", v)
	}
	rec := zz.NewRecorder()
	env.P.Handler().ServeHTTP(rec, req)
	zz.Assert(zz.And(rec.Status() == 301, zz.Upstream.Calls == 0), "C18.plain HTTP with secure cookies is redirected, not served (escaped target)")
	loc, err := url.Parse(rec.H.Get("Location"))
	if err != nil || loc == nil {
		zz.Assert(false, "C18.the https redirect of an escaped target is a URL")
		return
	}
	zz.Reach("https-redirect")
	zz.Assert(zz.And(loc.Scheme == "https", loc.Host == req.Host, loc.Path == req.URL.Path, loc.RawQuery == req.URL.RawQuery),
		"C18.https redirect of an escaped target keeps host, decoded path and query")
}
