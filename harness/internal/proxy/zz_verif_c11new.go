package proxy

import (
	"encoding/json"
	"net/http"
	"net/url"
	"strings"
	"time"

	"github.com/buzzfeed/sso/internal/pkg/sessions"
	"github.com/buzzfeed/sso/internal/pkg/validators"
	"github.com/buzzfeed/sso/internal/proxy/providers"
	zz "github.com/buzzfeed/sso/internal/zzverif"
)

func init() {
	VerifHarnesses["VerifC11NewCallback"] = VerifC11NewCallback
}

// verifDirectory is a healthy authenticator with a fixed directory: redeem answers with one
// (arbitrary) user, profile with that user's (arbitrary) group list - the proxy's provider
// intersects it with the groups it asked about.
type verifDirectory struct {
	Email, Access string
	Groups        []string
	ProfileCalls  int
}

func (d *verifDirectory) RoundTrip(req *http.Request) (*http.Response, error) {
	switch req.URL.Path {
	case "/" + verifSlug + "/redeem":
		b, _ := json.Marshal(struct {
			AccessToken  string `json:"access_token"`
			RefreshToken string `json:"refresh_token"`
			ExpiresIn    int64  `json:"expires_in"`
			Email        string `json:"email"`
		}{d.Access, "refresh", 3600, d.Email})
		return zz.Response(200, b), nil
	case "/" + verifSlug + "/profile":
		d.ProfileCalls++
		b, _ := json.Marshal(struct {
			Email  string   `json:"email"`
			Groups []string `json:"groups"`
		}{d.Email, d.Groups})
		return zz.Response(200, b), nil
	}
	return zz.Response(404, nil), nil
}

// VerifC11NewCallback: the allow rules applied at the login callback of an upstream built by
// the REAL proxy.New are exactly that upstream's own (C01 / C11 / C13 wiring): two upstreams,
// each with one rule of an arbitrary kind (address / domain / group) and arbitrary content; a
// clean login flow for an arbitrary user on either upstream is admitted exactly when at
// least one of THAT upstream's rules accepts the user.
func VerifC11NewCallback() {
	zz.ClockMaxAdvance(time.Hour)
	dir := &verifDirectory{Email: zz.NondetString("user.email"), Access: zz.NondetString("user.access"), Groups: verifStrings("user.group", 1)}
	zz.Assume(dir.Email != "")
	providers.VerifSetTransport(dir)
	hosts := []string{"one.sso.test", "two.sso.test"}
	var ucs []*UpstreamConfig
	for i := 0; i < 2; i++ {
		up := zz.StartUpstreamN(i)
		uc := &UpstreamConfig{Service: "svc" + string(rune('a'+i)), CookieName: verifCookieName, SkipRequestSigning: true, ProviderSlug: verifSlug,
			Route: &SimpleRoute{FromURL: &url.URL{Scheme: "https", Host: hosts[i]}, ToURL: &url.URL{Scheme: "http", Host: up}}}
		label := "up" + string(rune('0'+i))
		switch zz.Choose(label+".rule.kind", 3) {
		case 0:
			uc.AllowedEmailAddresses = verifStrings(label+".address", 1)
		case 1:
			uc.AllowedEmailDomains = verifStrings(label+".domain", 1)
		default:
			uc.AllowedGroups = verifStrings(label+".group", 1)
		}
		ucs = append(ucs, uc)
	}
	cfg := Configuration{
		ProviderConfig: ProviderConfig{ProviderType: "sso", Scope: "sso", ProviderURLConfig: ProviderURLConfig{External: verifAuthBase}},
		ClientConfig:   ClientConfig{ID: "client-id", Secret: "client-secret"},
		SessionConfig: SessionConfig{CookieConfig: CookieConfig{Name: verifCookieName, Secret: verifSecret, Expire: 168 * time.Hour, Secure: false, HTTPOnly: true},
			TTLConfig: TTLConfig{Lifetime: 720 * time.Hour, Valid: time.Minute, GracePeriod: time.Hour}},
		UpstreamConfigs: UpstreamConfigs{DefaultConfig: DefaultConfig{ProviderSlug: verifSlug}, upstreamConfigs: ucs},
	}
	px, err := New(cfg, nil)
	if err != nil {
		panic(err)
	}
	t := zz.Choose("login.on.upstream", 2)
	host := hosts[t]
	// a clean flow: state and CSRF cookie are two sealings of one flow record under the deployment's secret
	store, _ := sessions.NewCookieStore(verifCookieName, sessions.CreateMiscreantCookieCipher([]byte(strings.Repeat("k", 64))))
	flow := &StateParameter{SessionID: "flow-id", RedirectURI: "https://" + host + "/"}
	state, _ := store.CookieCipher.Marshal(flow)
	csrf, _ := store.CookieCipher.Marshal(flow)
	req := zz.NewRequest("GET", host, "/oauth2/callback", "")
	req.URL.Scheme = "https"
	q := url.Values{}
	q.Set("state", state)
	q.Set("code", "code")
	zz.SetForm(req, q, nil, false)
	req.Header.Set("Cookie", zz.CookieLine(&http.Cookie{Name: verifCookieName + "_csrf", Value: csrf}))
	rec := zz.NewRecorder()
	px.ServeHTTP(rec, req)

	var s1 sessions.SessionState
	saved := false
	if ck := verifSessionCookie(rec, verifCookieName); ck != nil && ck.Value != "" {
		saved = store.CookieCipher.Unmarshal(ck.Value, &s1) == nil
	}
	// the upstream's OWN rules, evaluated by fresh validators / by the directory
	uc := ucs[t]
	probe := &sessions.SessionState{Email: dir.Email}
	own := false
	if len(uc.AllowedEmailAddresses) != 0 {
		own = zz.Or(own, validators.NewEmailAddressValidator(uc.AllowedEmailAddresses).Validate(probe) == nil)
	}
	if len(uc.AllowedEmailDomains) != 0 {
		own = zz.Or(own, validators.NewEmailDomainValidator(uc.AllowedEmailDomains).Validate(probe) == nil)
	}
	if len(uc.AllowedGroups) != 0 {
		in := false
		for _, g := range dir.Groups {
			for _, al := range uc.AllowedGroups {
				in = zz.Or(in, g == al)
			}
		}
		own = zz.Or(own, in, uc.AllowedGroups[0] == "*")
	}
	if saved {
		zz.Reach("admitted")
		zz.Assert(own, "C11.login on an upstream built by New admits only a user one of THAT upstream's rules accepts")
		zz.Assert(s1.AuthorizedUpstream == host, "C13.login binds the session to the upstream's host")
		zz.Assert(s1.Email == dir.Email, "C06.session holds the redeemed identity")
		zz.Assert(rec.Status() == 302, "C06.success is a redirect")
	} else {
		zz.Reach("refused")
		zz.Assert(!own, "C11.login on an upstream built by New refuses only a user none of THAT upstream's rules accepts")
		zz.Assert(rec.Status() == 403, "C11.refusal by the rules is a 403 page")
	}
	zz.Assert(zz.Upstreams[0].Calls+zz.Upstreams[1].Calls == 0, "C01.the login callback reaches no backend")
}
