package proxy

import (
	"net/http"
	"time"

	"github.com/buzzfeed/sso/internal/pkg/sessions"
	"github.com/buzzfeed/sso/internal/pkg/validators"
	zz "github.com/buzzfeed/sso/internal/zzverif"
)

func init() {
	VerifHarnesses["VerifC11Address"] = VerifC11Address
	VerifHarnesses["VerifC11Domain"] = VerifC11Domain
	VerifHarnesses["VerifC11Group"] = VerifC11Group
	VerifHarnesses["VerifC11SameVerdict"] = VerifC11SameVerdict
}

// ---- the documented semantics, written independently of the validators (byte-wise) ----

func verifEqFold(a, b string) bool {
	if len(a) != len(b) {
		return false
	}
	eq := true
	for i := 0; i < len(a); i++ {
		eq = zz.And(eq, zz.LowerByte(a[i]) == zz.LowerByte(b[i]))
	}
	return eq
}

// verifDomainOf: "the part after the last @ equals d, case-insensitively".
func verifDomainIs(email, d string) bool {
	res := false
	for i := 0; i < len(email); i++ {
		isLast := email[i] == '@'
		for j := i + 1; j < len(email); j++ {
			isLast = zz.And(isLast, email[j] != '@')
		}
		res = zz.Or(res, zz.And(isLast, verifEqFold(email[i+1:], d)))
	}
	return res
}

func verifNoAt(s string) bool {
	ok := true
	for i := 0; i < len(s); i++ {
		ok = zz.And(ok, s[i] != '@')
	}
	return ok
}

func verifCharsList(label string, n, max int) []string {
	out := make([]string, 0, n)
	for i := 0; i < n; i++ {
		out = append(out, zz.NondetChars(label, max))
	}
	return out
}

// VerifC11Address: EmailAddressValidator == "email equals a listed address, case-insensitively".
func VerifC11Address() {
	email := zz.NondetChars("email", zz.Bound("c11EmailLen", 5))
	list := verifCharsList("addr", 1+zz.Choose("naddr", zz.Bound("c11ListLen", 2)), zz.Bound("c11EmailLen", 5))
	v := validators.NewEmailAddressValidator(list)
	got := v.Validate(&sessions.SessionState{Email: email}) == nil
	want := false
	if len(email) > 0 {
		if len(list) == 1 && list[0] == "*" {
			want = true
			zz.Reach("addr-wildcard")
		} else {
			for _, a := range list {
				want = zz.Or(want, verifEqFold(email, a))
			}
		}
	}
	zz.ReachIf(zz.And(got, len(email) > 0), "addr-allowed")
	zz.ReachIf(!got, "addr-denied")
	zz.Assert(got == want, "C11.address rule: allowed iff email equals a listed address case-insensitively (lone * admits any non-empty email)")
}

// VerifC11Domain: EmailDomainValidator == "the email's whole domain equals a listed domain".
func VerifC11Domain() {
	email := zz.NondetChars("email", zz.Bound("c11EmailLen", 5))
	list := verifCharsList("dom", 1+zz.Choose("ndom", zz.Bound("c11ListLen", 2)), zz.Bound("c11DomLen", 3))
	for _, d := range list {
		zz.Assume(verifNoAt(d)) // a domain name contains no '@'
	}
	v := validators.NewEmailDomainValidator(list)
	got := v.Validate(&sessions.SessionState{Email: email}) == nil
	want := false
	if len(email) > 0 {
		if len(list) == 1 && list[0] == "*" {
			want = true
			zz.Reach("dom-wildcard")
		} else {
			for _, d := range list {
				want = zz.Or(want, verifDomainIs(email, d))
			}
		}
	}
	zz.ReachIf(zz.And(got, len(email) > 0), "dom-allowed")
	zz.ReachIf(!got, "dom-denied")
	star := false
	for _, d := range list {
		star = zz.Or(star, d == "*")
	}
	starInLongerList := zz.And(star, len(list) > 1)
	zz.Assert(zz.Implies(!starInLongerList, got == want), "C11.domain rule: allowed iff the part after the last @ equals a listed domain case-insensitively (lone * admits any non-empty email)")
	zz.Assert(zz.Implies(starInLongerList, got == want), "C11.domain rule: a * entry inside a longer list is an ordinary domain entry")
}

// VerifC11Group: EmailGroupValidator + the real SSOProvider.ValidateGroup == "the provider
// reports the user in a listed group".
func VerifC11Group() {
	n := 1 + zz.Choose("ngrp", 2)
	pol := verifPolicy{Groups: verifStrings("pol.grp", n)}
	// one shape: the directory reports a group that differs from the listed one only in letter case
	caseVariant := zz.NondetBool("directory.reports.case-variant")
	rest := ""
	if caseVariant {
		rest = zz.NondetString("grp.rest")
		n = 1
		pol = verifPolicy{Groups: []string{"h" + rest}}
	}
	env := verifNewEnv(pol)
	if caseVariant {
		env.Auth.ProfileGroups = []string{"H" + rest}
		zz.Reach("case-variant-group")
	}
	s := &sessions.SessionState{Email: zz.NondetString("email"), AccessToken: zz.NondetString("token")}
	var gv validators.Validator
	for _, v := range env.P.Validators {
		gv = v
	}
	err := gv.Validate(s)
	pf := env.Auth.Profile
	wildcard := n == 1 && pol.Groups[0] == "*"
	answered := zz.And(pf.Called == 1, !pf.NetErr, pf.Status == 200, !pf.BadJSON)
	member := false
	for _, g := range env.Auth.ProfileBody.Groups {
		for _, al := range pol.Groups {
			member = zz.Or(member, g == al)
		}
	}
	zz.ReachIf(zz.And(err == nil, !wildcard), "grp-allowed")
	zz.ReachIf(err != nil, "grp-denied")
	if wildcard {
		zz.Assert(zz.And(err == nil, pf.Called == 0), "C11.group rule: lone * admits without asking")
	} else {
		zz.Assert((err == nil) == zz.And(answered, member), "C11.group rule: allowed iff the provider answered and reports a listed group")
		if err == nil {
			for _, g := range s.Groups {
				in := false
				for _, al := range pol.Groups {
					in = zz.Or(in, g == al)
				}
				zz.Assert(in, "C11.group rule: recorded groups are listed groups")
			}
		}
	}
}

// VerifC11SameVerdict: with the same facts (email, policy, provider's group answer) the
// per-request decision of Authenticate equals the login decision (any rule admits).
func VerifC11SameVerdict() {
	shape := zz.Choose("shape", 6)
	var pol verifPolicy
	name := ""
	switch shape {
	case 0:
		pol.Addresses, name = verifCharsList("pol.addr", 1, 3), "{address}"
	case 1:
		pol.Domains, name = verifCharsList("pol.dom", 1, 2), "{domain}"
	case 2:
		pol.Groups, name = verifStrings("pol.grp", 1), "{group}"
	case 3:
		pol.Addresses, pol.Domains, name = verifCharsList("pol.addr", 1, 3), verifCharsList("pol.dom", 1, 2), "{address,domain}"
	case 4:
		pol.Addresses, pol.Groups, name = verifCharsList("pol.addr", 1, 3), verifStrings("pol.grp", 1), "{address,group}"
	case 5:
		pol.Domains, pol.Groups, name = verifCharsList("pol.dom", 1, 2), verifStrings("pol.grp", 1), "{domain,group}"
	}
	env := verifNewEnv(pol)
	req := verifRequest()
	now := time.Now()
	sess := verifSession("sess", 0)
	// a session for this upstream with nothing due: only the rules decide
	sess.ProviderSlug, sess.AuthorizedUpstream = verifSlug, req.Host
	sess.Email = zz.NondetChars("email", 3)
	zz.Assume(sess.Email != "")
	_ = now
	// the login decision on these facts: any configured rule admits. The provider's group answer is
	// the symbolic fact `inGroup` (what /profile would say, now and later).
	inGroup := zz.NondetBool("provider.says.in.group")
	login := false
	for _, v := range env.P.Validators {
		if _, isGroup := v.(validators.EmailGroupValidator); isGroup {
			login = zz.Or(login, inGroup)
		} else {
			login = zz.Or(login, v.Validate(sess) == nil)
		}
	}
	zz.Assume(login) // the user was admitted at login
	sealed := env.Cipher.Preload("cookie", sess)
	req.Header.Set("Cookie", zz.CookieLine(&http.Cookie{Name: verifCookieName, Value: sealed}))
	rec := zz.NewRecorder()
	env.P.Proxy(rec, req)
	tEnd := time.Now()
	// nothing was due during the request: only the rules decided
	zz.Assume(zz.And(sess.LifetimeDeadline.After(tEnd), sess.RefreshDeadline.After(tEnd), sess.ValidDeadline.After(tEnd)))
	zz.Reach("admitted-at-login " + name)
	zz.Assert(env.Reached == 1, "C11.same verdict later: admitted at login => served on the next request, rules "+name)
}
