package proxy

// Shared environment of the proxy harnesses (C01, C03, C04, C05, C06, C11, C13, C18, C19):
// a real OAuthProxy wired to the real CookieStore, the real SingleFlightProvider +
// SSOProvider, real validators; below sso: an ideal-AEAD cipher (zz.Cipher), a scripted
// authenticator behind the providers' HTTP client, a recording backend.

import (
	"html/template"
	"net/http"
	"net/url"
	"regexp"
	"strings"
	"time"

	"github.com/buzzfeed/sso/internal/pkg/sessions"
	"github.com/buzzfeed/sso/internal/pkg/validators"
	"github.com/buzzfeed/sso/internal/proxy/providers"
	zz "github.com/buzzfeed/sso/internal/zzverif"
)

const (
	verifSlug       = "idp"
	verifCookieName = "_sso_proxy"
	verifAuthBase   = "https://sso-auth.example"
)

// verifAnswer is one scripted answer of the authenticator.
type verifAnswer struct {
	Called  int
	NetErr  bool
	Status  int
	BadJSON bool
}

// verifAuth is the scripted sso-auth server: every endpoint answers with an arbitrary
// transport error / status / body, independently per call.
type verifAuth struct {
	Refresh, Validate, Profile, Redeem verifAnswer
	RefreshBody                        struct {
		AccessToken string `json:"access_token"`
		ExpiresIn   int64  `json:"expires_in"`
	}
	ProfileBody struct {
		Email  string   `json:"email"`
		Groups []string `json:"groups"`
	}
	RedeemBody struct {
		AccessToken  string `json:"access_token"`
		RefreshToken string `json:"refresh_token"`
		ExpiresIn    int64  `json:"expires_in"`
		Email        string `json:"email"`
	}
	Log           []string
	ProfileGroups []string // if set: the groups /profile reports (instead of an arbitrary list)
}

func (a *verifAuth) answer(name string, ans *verifAnswer, okStatus int, body func(bad bool) []byte) (*http.Response, error) {
	ans.Called++
	a.Log = append(a.Log, name)
	ans.NetErr = zz.NondetBool(name + ".neterr")
	if ans.NetErr {
		return nil, errVerifNet
	}
	ans.Status = zz.NondetInt(name + ".status")
	zz.Assume(ans.Status >= 100)
	zz.Assume(ans.Status <= 599)
	if ans.Status != okStatus {
		return zz.Response(ans.Status, []byte("error")), nil
	}
	ans.BadJSON = zz.NondetBool(name + ".badjson")
	return zz.Response(ans.Status, body(ans.BadJSON)), nil
}

type verifNetErr struct{}

func (verifNetErr) Error() string { return "connection refused" }

var errVerifNet error = verifNetErr{}

func (a *verifAuth) RoundTrip(req *http.Request) (*http.Response, error) {
	switch req.URL.Path {
	case "/" + verifSlug + "/refresh":
		return a.answer("refresh", &a.Refresh, 201, func(bad bool) []byte {
			zz.Havoc("refresh.body", &a.RefreshBody)
			// expires_in: any value whose product with time.Second stays inside int64 is accepted
			// by the property; wrap-around inputs are explored too (the product is encoded mod 2^64)
			return zz.JSONBody(&a.RefreshBody, bad)
		})
	case "/" + verifSlug + "/validate":
		return a.answer("validate", &a.Validate, 200, func(bad bool) []byte { return []byte("{}") })
	case "/" + verifSlug + "/profile":
		return a.answer("profile", &a.Profile, 200, func(bad bool) []byte {
			zz.Havoc("profile.body", &a.ProfileBody)
			if a.ProfileGroups != nil {
				a.ProfileBody.Groups = a.ProfileGroups // the harness fixes what the directory reports
			}
			return zz.JSONBody(&a.ProfileBody, bad)
		})
	case "/" + verifSlug + "/redeem":
		return a.answer("redeem", &a.Redeem, 200, func(bad bool) []byte {
			zz.Havoc("redeem.body", &a.RedeemBody)
			return zz.JSONBody(&a.RedeemBody, bad)
		})
	}
	return zz.Response(404, nil), nil
}

type verifPolicy struct {
	Preflight  bool
	Regexes    int // number of skip-auth patterns
	Addresses  []string
	Domains    []string
	Groups     []string
	PassToken  bool
}

type verifEnv struct {
	P       *OAuthProxy
	Cipher  *zz.Cipher
	Store   *sessions.CookieStore
	Auth    *verifAuth
	Data    *providers.ProviderData
	Policy  verifPolicy
	Reached int
	AtBackend http.Header // request headers seen by the backend
	LifetimeTTL, ValidTTL, GraceTTL time.Duration
}

func verifTTL(label string) time.Duration {
	d := zz.NondetDuration(label)
	zz.Assume(d > 0)
	zz.Assume(d <= 1<<55)
	return d
}

func verifStrings(label string, n int) []string {
	out := make([]string, 0, n)
	for i := 0; i < n; i++ {
		out = append(out, zz.NondetString(label))
	}
	return out
}

// verifNewEnv builds the proxy for one upstream with the given policy shape.
func verifNewEnv(pol verifPolicy) *verifEnv {
	env := &verifEnv{Policy: pol, Auth: &verifAuth{}, Cipher: &zz.Cipher{Name: "cookie"}}
	providers.VerifSetTransport(env.Auth)
	env.LifetimeTTL, env.ValidTTL, env.GraceTTL = verifTTL("ttl.lifetime"), verifTTL("ttl.valid"), verifTTL("ttl.grace")
	base, _ := url.Parse(verifAuthBase)
	env.Data = &providers.ProviderData{ProviderSlug: verifSlug, ProviderURL: base, ClientID: "client-id", ClientSecret: "client-secret", Scope: "sso",
		SessionLifetimeTTL: env.LifetimeTTL, SessionValidTTL: env.ValidTTL, GracePeriodTTL: env.GraceTTL}
	prov := providers.NewSingleFlightProvider(providers.NewSSOProvider(env.Data, nil), nil)
	env.Store = &sessions.CookieStore{Name: verifCookieName, CSRFCookieName: verifCookieName + "_csrf", CookieExpire: 168 * time.Hour,
		CookieSecure: true, CookieHTTPOnly: true, CookieCipher: env.Cipher}
	uc := &UpstreamConfig{Service: "svc", SkipAuthPreflight: pol.Preflight, AllowedGroups: pol.Groups, AllowedEmailAddresses: pol.Addresses,
		AllowedEmailDomains: pol.Domains, PassAccessToken: pol.PassToken, CookieName: verifCookieName, ProviderSlug: verifSlug}
	for i := 0; i < pol.Regexes; i++ {
		uc.SkipAuthCompiledRegex = append(uc.SkipAuthCompiledRegex, verifRegex(i))
	}
	var v []validators.Validator
	if len(pol.Addresses) != 0 {
		v = append(v, validators.NewEmailAddressValidator(pol.Addresses))
	}
	if len(pol.Domains) != 0 {
		v = append(v, validators.NewEmailDomainValidator(pol.Domains))
	}
	if len(pol.Groups) != 0 {
		v = append(v, validators.NewEmailGroupValidator(prov, pol.Groups))
	}
	backend := http.HandlerFunc(func(rw http.ResponseWriter, req *http.Request) {
		env.Reached++
		env.AtBackend = req.Header
		rw.WriteHeader(299) // a status no sso page uses: marks upstream content
	})
	env.P = &OAuthProxy{cookieSecure: true, Validators: v, redirectURL: &url.URL{Path: "/oauth2/callback"}, provider: prov, templates: verifTemplates(),
		cookieCipher: env.Cipher, upstreamConfig: uc, handler: backend, csrfStore: env.Store, sessionStore: env.Store}
	return env
}

// verifTemplates: natively the real templates; under the executor nil (rendering is
// modelled by a page marker, see VerifModel_template_Template_ExecuteTemplate).
func verifTemplates() *template.Template { return getTemplates() }

func verifModel_proxy_verifTemplates() *template.Template { return nil }

// getTemplates (html/template parsing) is replaced by nil under the executor.
func verifModel_proxy_getTemplates() *template.Template { return nil }

// verifEmailValidators builds fresh address/domain validators for a policy (the specification side).
func verifEmailValidators(pol verifPolicy) []validators.Validator {
	var v []validators.Validator
	if len(pol.Addresses) != 0 {
		v = append(v, validators.NewEmailAddressValidator(pol.Addresses))
	}
	if len(pol.Domains) != 0 {
		v = append(v, validators.NewEmailDomainValidator(pol.Domains))
	}
	return v
}

func verifRegex(i int) *regexp.Regexp {
	switch i {
	case 0:
		return zz.Regex("skip0")
	case 1:
		return zz.Regex("skip1")
	}
	return zz.Regex("skipN")
}

// verifWhitelisted is the specification of "skip-auth": preflight OPTIONS, or a pattern
// matches the request PATH (and nothing else of the request).
func (env *verifEnv) verifWhitelisted(method, path string) bool {
	if env.Policy.Preflight && method == "OPTIONS" {
		return true
	}
	for i := 0; i < env.Policy.Regexes; i++ {
		if verifRegex(i).MatchString(path) {
			return true
		}
	}
	return false
}

// verifSession draws an arbitrary session (every field symbolic).
func verifSession(label string, nGroups int) *sessions.SessionState {
	s := &sessions.SessionState{}
	s.ProviderSlug = zz.NondetString(label + ".slug")
	s.ProviderType = "sso"
	s.AccessToken = zz.NondetString(label + ".access")
	s.RefreshToken = zz.NondetString(label + ".refresh")
	s.RefreshDeadline = zz.NondetTime(label + ".refreshDeadline")
	s.LifetimeDeadline = zz.NondetTime(label + ".lifetimeDeadline")
	s.ValidDeadline = zz.NondetTime(label + ".validDeadline")
	s.GracePeriodStart = zz.NondetTime(label + ".graceStart")
	s.Email = zz.NondetString(label + ".email")
	s.User = zz.NondetString(label + ".user")
	s.Groups = verifStrings(label+".group", nGroups)
	s.AuthorizedUpstream = zz.NondetString(label + ".upstream")
	return s
}

func verifCopySession(s *sessions.SessionState) sessions.SessionState {
	c := *s
	c.Groups = append([]string(nil), s.Groups...)
	return c
}

// verifCookieValueOK: cookie values the request model can carry (what net/http's cookie
// parser passes through unchanged).
func verifCookieValueOK(v string) bool {
	return zz.And(v != "", !strings.Contains(v, ";"), !strings.Contains(v, " "), !strings.Contains(v, "\""), !strings.Contains(v, ","), !strings.Contains(v, "\\"))
}

// verifRequest builds a request with symbolic method, host, path, query and XHR marker.
func verifRequest() *http.Request {
	req := zz.NewRequest(zz.NondetString("req.method"), zz.NondetString("req.host"), zz.NondetString("req.path"), zz.NondetString("req.query"))
	zz.Assume(req.Host != "")
	zz.Assume(!strings.Contains(req.Host, ":"))
	// an origin-form request target as the router hands it on: begins with "/", already clean
	p := req.URL.Path
	zz.Assume(zz.And(strings.HasPrefix(p, "/"), !strings.Contains(p, "//"), !strings.Contains(p, "/."), !strings.Contains(p, "%"), !strings.Contains(p, "?"), !strings.Contains(p, "#"), !strings.Contains(p, " ")))
	q := req.URL.RawQuery
	zz.Assume(zz.And(!strings.Contains(q, "#"), !strings.Contains(q, " "), !strings.Contains(q, "%"), !strings.Contains(q, ";")))
	if zz.NondetBool("req.xhr") {
		req.Header.Set("X-Requested-With", "XMLHttpRequest")
	}
	return req
}

// verifSessionCookie returns the session cookie set on the response, if any (last one wins in a browser).
func verifSessionCookie(rec *zz.Recorder, name string) *http.Cookie {
	var out *http.Cookie
	for _, c := range rec.SetCookies() {
		if c.Name == name {
			out = c
		}
	}
	return out
}
