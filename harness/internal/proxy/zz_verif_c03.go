package proxy

import (
	"net/http"
	"strings"
	"time"

	"github.com/buzzfeed/sso/internal/pkg/sessions"

	zz "github.com/buzzfeed/sso/internal/zzverif"
)

func init() { VerifHarnesses["VerifC03Upstream"] = VerifC03Upstream }

var verifIdentityHeaders = []string{"X-Forwarded-User", "X-Forwarded-Email", "X-Forwarded-Groups", "X-Forwarded-Access-Token"}

// VerifC03Upstream: what the backend receives behind the real handler chain, for any client
// spelling of the identity headers and any cookie layout.
func VerifC03Upstream() {
	mode := zz.Choose("mode", 3) // 0 = fresh session, 1 = no session cookie (skip-auth / preflight / refused), 2 = session whose validation is due
	pol := verifPolicy{Preflight: zz.NondetBool("pol.preflight"), Regexes: 1, Domains: []string{"*"}, PassToken: zz.NondetBool("pol.passtoken")}
	if mode == 2 {
		pol = verifPolicy{Groups: verifStrings("pol.grp", 1), PassToken: pol.PassToken}
	}
	inject := map[string]string(nil)
	if zz.NondetBool("pol.inject") {
		inject = map[string]string{"X-Injected": zz.NondetString("pol.inject.value")}
	}
	env := verifNewChainEnv(pol, verifChainOpts{SkipSigning: true, Inject: inject, CookieSecure: false})
	zz.ClockMaxAdvance(time.Hour) // one request is handled within the hour: the fresh session stays fresh
	req := verifRequest()
	req.URL.Scheme = "https"
	zz.Assume(verifProxiedPath(req.URL.Path))
	// client-chosen identity headers: 0..2 values each
	nvals := zz.Choose("client.identity.values", 3)
	for _, k := range verifIdentityHeaders {
		for i := 0; i < nvals; i++ {
			req.Header.Add(k, zz.NondetString("client."+k))
		}
	}
	// cookies: up to 3, any of which may carry the session cookie's name
	var sessTok, sessUser, sessEmail, sessGroups string
	var cookies []*http.Cookie
	var kept []string
	ncookies := zz.Choose("ncookies", 3)
	names := []string{"other_a", "other_b"}
	for i := 0; i < ncookies; i++ {
		c := &http.Cookie{Name: names[i], Value: zz.NondetString("cookie.value")}
		zz.Assume(verifCookieValueOK(c.Value))
		cookies = append(cookies, c)
		kept = append(kept, c.Name+"="+c.Value)
	}
	if mode != 1 {
		sess := verifFreshSession(env, req.Host, zz.Choose("sess.ngroups", 3))
		if mode == 2 {
			sess.ValidDeadline = time.Now().Add(-time.Hour) // revalidation is due: the authenticator's fresh group answer is what counts
		}
		sessTok, sessUser, sessEmail, sessGroups = sess.AccessToken, sess.User, sess.Email, strings.Join(sess.Groups, ",")
		sc := &http.Cookie{Name: verifCookieName, Value: env.Cipher.Preload("cookie", sess)}
		// the session cookie at any position among the others
		pos := zz.Choose("session.cookie.position", ncookies+1)
		cookies = append(cookies[:pos], append([]*http.Cookie{sc}, cookies[pos:]...)...)
		// a browser (or an attacker) may send a second cookie of the same name
		if zz.NondetBool("session.cookie.duplicate") {
			dup := &http.Cookie{Name: verifCookieName, Value: zz.NondetString("cookie.dup")}
			zz.Assume(verifCookieValueOK(dup.Value))
			cookies = append(cookies, dup)
		}
	}
	if len(cookies) > 0 {
		req.Header.Set("Cookie", zz.CookieLine(cookies...))
	}
	method, path := req.Method, req.URL.Path
	rec := zz.NewRecorder()
	env.P.Handler().ServeHTTP(rec, req)
	up := zz.Upstream
	white := env.verifWhitelisted(method, path)
	if up.Calls == 0 {
		zz.Reach("not-forwarded")
		zz.Log("status " + http.StatusText(rec.Status()) + " location " + rec.H.Get("Location"))
		return
	}
	zz.Assert(up.Calls == 1, "C03.forwarded once")
	h := up.Header
	// --- cookies: the session cookie is never forwarded; the others arrive unchanged, in order ---
	if len(kept) == 0 {
		zz.Assert(len(h["Cookie"]) == 0, "C03.no other cookies: no Cookie header forwarded")
	} else {
		zz.Assert(verifHeaderIs(h, "Cookie", strings.Join(kept, ";")), "C03.other cookies forwarded unchanged and the session cookie removed")
	}
	authed := mode != 1
	if mode == 2 {
		// the identity asserted is that of the session as re-saved after the check
		if c := verifSessionCookie(rec, verifCookieName); c != nil && c.Value != "" {
			var s1 sessions.SessionState
			if env.Cipher.Unmarshal(c.Value, &s1) == nil {
				zz.Reach("forwarded-after-revalidation")
				sessGroups = strings.Join(s1.Groups, ",")
			}
		}
	}
	if authed {
		zz.Reach("forwarded-authenticated")
		zz.ReachIf(white, "authenticated-and-whitelisted")
		// a whitelisted path skips Authenticate even with a good cookie: identity is then not asserted at all
		if !white {
			zz.Assert(verifHeaderIs(h, "X-Forwarded-User", sessUser), "C03.X-Forwarded-User is the session's")
			zz.Assert(verifHeaderIs(h, "X-Forwarded-Email", sessEmail), "C03.X-Forwarded-Email is the session's")
			zz.Assert(verifHeaderIs(h, "X-Forwarded-Groups", sessGroups), "C03.X-Forwarded-Groups is the session's")
			tokenOn := zz.And(pol.PassToken, sessTok != "")
			zz.Assert(zz.Implies(tokenOn, verifHeaderIs(h, "X-Forwarded-Access-Token", sessTok)), "C03.access token header is the session's when enabled")
			zz.Assert(zz.Implies(!tokenOn, len(h["X-Forwarded-Access-Token"]) == 0), "C03.access token header absent when not enabled")
			if inject != nil {
				zz.Assert(verifHeaderIs(h, "X-Injected", inject["X-Injected"]), "C03.configured inject header set")
			}
		}
	}
	if !authed || white {
		zz.Reach("forwarded-unauthenticated")
		for _, k := range verifIdentityHeaders {
			zz.Assert(len(h[k]) == 0, "C03.unauthenticated skip-auth request carries no "+k)
		}
	}
}
