package providers

import "strings"

func contains(s, sub string) bool { return strings.Contains(s, sub) }
