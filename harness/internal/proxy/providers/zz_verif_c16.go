package providers

import (
	"net/url"
	"time"

	"github.com/buzzfeed/sso/internal/pkg/sessions"
	zz "github.com/buzzfeed/sso/internal/zzverif"
)

var VerifHarnesses = map[string]func(){
	"VerifC16ProxyWrappers": VerifC16ProxyWrappers,
}

// verifInner is the provider behind the SingleFlightProvider: it counts executions, lets
// other callers arrive while it "works" (zz.Yield) and updates the session it was given.
type verifInner struct {
	Execs   int
	Methods []string
}

func (p *verifInner) Data() *ProviderData { return &ProviderData{ProviderSlug: "idp"} }
func (p *verifInner) Redeem(string, string) (*sessions.SessionState, error) { return nil, nil }
func (p *verifInner) ValidateGroup(string, []string, string) ([]string, bool, error) {
	return nil, false, nil
}
func (p *verifInner) GetSignInURL(*url.URL, string) *url.URL { return nil }
func (p *verifInner) GetSignOutURL(*url.URL) *url.URL        { return nil }

func (p *verifInner) UserGroups(email string, groups []string, token string) ([]string, error) {
	p.Execs++
	p.Methods = append(p.Methods, "UserGroups")
	zz.Yield()
	if zz.NondetBool("inner.usergroups.fails") {
		return nil, ErrAuthProviderUnavailable
	}
	return []string{zz.NondetString("inner.group")}, nil
}

func (p *verifInner) ValidateSessionState(s *sessions.SessionState, groups []string) bool {
	p.Execs++
	p.Methods = append(p.Methods, "ValidateSessionState")
	zz.Yield()
	// what the real SSOProvider does on success (or under grace)
	s.ValidDeadline = zz.NondetTime("inner.validDeadline")
	s.GracePeriodStart = zz.NondetTime("inner.graceStart")
	s.Groups = []string{zz.NondetString("inner.group")}
	return true
}

func (p *verifInner) RefreshSession(s *sessions.SessionState, groups []string) (bool, error) {
	p.Execs++
	p.Methods = append(p.Methods, "RefreshSession")
	zz.Yield()
	s.AccessToken = zz.NondetString("inner.newToken")
	s.RefreshDeadline = zz.NondetTime("inner.refreshDeadline")
	s.GracePeriodStart = zz.NondetTime("inner.graceStart")
	s.Groups = []string{zz.NondetString("inner.group")}
	return true, nil
}

func verifSetEq2(a, b []string) bool {
	if len(a) != len(b) {
		return false
	}
	switch len(a) {
	case 0:
		return true
	case 1:
		return a[0] == b[0]
	}
	return zz.Or(zz.And(a[0] == b[0], a[1] == b[1]), zz.And(a[0] == b[1], a[1] == b[0]))
}

// VerifC16ProxyWrappers: two overlapping calls through the real SingleFlightProvider (and the
// real singleflight.Group) with symbolic methods and subjects, under every interleaving.
func VerifC16ProxyWrappers() {
	inner := &verifInner{}
	sf := NewSingleFlightProvider(inner, nil)
	// a second provider instance (proxy.New builds one per upstream, possibly for another
	// identity provider): calls through different instances are different questions
	inner2 := &verifInner{}
	sf2 := NewSingleFlightProvider(inner2, nil)
	second := zz.NondetBool("second.caller.uses.another.provider.instance")
	type caller struct {
		method  int
		sess    *sessions.SessionState
		email   string
		groups  []string
		groups0 []string
		ok      bool
		done    bool
		out     []string
		err     error
	}
	var cs [2]*caller
	for i := 0; i < 2; i++ {
		c := &caller{method: zz.Choose("method", 3)}
		c.sess = &sessions.SessionState{AccessToken: zz.NondetString("access"), RefreshToken: zz.NondetString("refresh"), Email: zz.NondetString("email"),
			ValidDeadline: zz.NondetTime("validDeadline"), RefreshDeadline: zz.NondetTime("refreshDeadline")}
		c.email = c.sess.Email
		n := zz.Choose("ngroups", zz.Bound("c16MaxGroups", 1)+1)
		for k := 0; k < n; k++ {
			g := zz.NondetString("group")
			zz.Assume(zz.And(g != "", !contains(g, ","))) // group names are non-empty and comma-free
			c.groups = append(c.groups, g)
		}
		zz.Assume(!contains(c.email, ":"))
		c.groups0 = append([]string(nil), c.groups...)
		cs[i] = c
		via := sf
		if i == 1 && second {
			via = sf2
		}
		zz.Go("caller", func() {
			switch c.method {
			case 0:
				c.ok = via.ValidateSessionState(c.sess, c.groups)
			case 1:
				c.ok, c.err = via.RefreshSession(c.sess, c.groups)
			case 2:
				c.out, c.err = via.UserGroups(c.email, c.groups, c.sess.AccessToken)
			}
			c.done = true
		})
	}
	before := [2]sessions.SessionState{*cs[0].sess, *cs[1].sess}
	if zz.RunSchedule(zz.Bound("c16WrapperSteps", 14)) != "done" {
		zz.Reach("budget")
		return
	}
	zz.Assert(cs[0].done && cs[1].done, "C16.both callers return")
	if second {
		zz.Reach("two-provider-instances")
		zz.Assert(zz.And(inner.Execs == 1, inner2.Execs == 1), "C16.calls through different provider instances are never merged")
		return
	}
	merged := inner.Execs == 1
	if !merged {
		zz.Reach("not-merged")
		zz.Assert(inner.Execs == 2, "C16.each unmerged call executes once")
		return
	}
	zz.Reach("merged")
	a, b := cs[0], cs[1]
	zz.Assert(a.method == b.method, "C16.calls to different endpoints are never merged")
	if a.method != b.method {
		return
	}
	switch a.method {
	case 0:
		zz.Assert(before[0].AccessToken == before[1].AccessToken, "C16.validations of different access tokens are never merged")
	case 1:
		zz.Assert(before[0].RefreshToken == before[1].RefreshToken, "C16.refreshes of different refresh tokens are never merged")
	case 2:
		zz.Assert(zz.And(a.email == b.email, verifSetEq2(a.groups0, b.groups0)), "C16.group lookups for a different user or group set are never merged")
	}
	// every caller whose call was merged receives the answer of the one execution
	zz.Assert(zz.And((a.err == nil) == (b.err == nil), a.ok == b.ok), "C16.merged callers receive the same verdict and the same error or success (proxy wrapper)")
	if a.method == 2 {
		zz.Assert(verifSetEq2(a.out, b.out), "C16.merged group lookups receive the same groups (proxy wrapper)")
	}
	// a caller whose call was merged ends up with the same session updates as the caller whose call ran
	if a.method == 0 && a.ok && b.ok {
		zz.Assert(zz.And(a.sess.ValidDeadline.Equal(b.sess.ValidDeadline), a.sess.GracePeriodStart.Equal(b.sess.GracePeriodStart), len(a.sess.Groups) == len(b.sess.Groups)),
			"C16.follower of a merged ValidateSessionState gets the same session updates (proxy wrapper)")
	}
	if a.method == 1 && a.ok && b.ok {
		zz.Assert(zz.And(a.sess.AccessToken == b.sess.AccessToken, a.sess.RefreshDeadline.Equal(b.sess.RefreshDeadline), a.sess.GracePeriodStart.Equal(b.sess.GracePeriodStart)),
			"C16.follower of a merged RefreshSession gets the same session updates (proxy wrapper)")
	}
	_ = time.Now
}
