package providers

import "net/http"

// VerifSetTransport points the package's HTTP client at a scripted authenticator
// (overlay only; never part of /repo).
func VerifSetTransport(rt http.RoundTripper) { httpClient = &http.Client{Transport: rt} }
